#!/usr/bin/env bash
# ./check.sh selftest determinism [runs]
#   every scenario: the same seeds run twice inside one process (history hashes compared run by
#   run), and whole batches repeated in separate processes at 1, 3 and 16 workers and for a second
#   VERIF_SEED; the batch digests (order-independent sum of per-run history hashes) must agree.
# Exit 0 = deterministic, 2 = not.
set -u
cd "$(dirname "$0")"
BIN=sim/target/release/dltsim
what="${1:-determinism}"
runs="${2:-3000}"
if [ "$what" != "determinism" ]; then echo "usage: $0 determinism [runs]"; exit 2; fi
export VERIF_DIR="${VERIF_DIR:-$(pwd)}"
bad=0
for seed in 20260929 7; do
  ref=""
  for w in 16 1 3 16; do
    out=$(VERIF_SEED=$seed VERIF_WORKERS=$w VERIF_RUNS=$runs $BIN selftest determinism) || bad=1
    dig=$(echo "$out" | awk '{print $2, $4, $5}')
    if [ -z "$ref" ]; then ref="$dig"; echo "$out" | sed "s/^/seed=$seed workers=$w /"; fi
    if [ "$dig" != "$ref" ]; then
      echo "NONDETERMINISM seed=$seed workers=$w"; diff <(echo "$ref") <(echo "$dig"); bad=1
    fi
  done
done
if [ $bad -ne 0 ]; then echo "HARNESS-ERROR: determinism selftest failed"; exit 2; fi
echo "determinism selftest passed: 2 seeds x 4 processes x 3 worker counts x $runs runs x every scenario"
