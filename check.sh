#!/usr/bin/env bash
# Entry point for every registered check (see MANIFEST.json, DESIGN.md section 10).
#   ./check.sh setup                      build dltsim offline
#   ./check.sh <ID> <quick|thorough>      decide one property on /repo's current working tree
#   ./check.sh replay <file>              re-run one replay file; exit 1 if it still fails
#   ./check.sh selftest determinism       same seeds, twice, several worker counts / processes
# Exit codes: 0 held, 1 VIOLATION line(s) printed, 2 harness error.
set -u
cd "$(dirname "$0")"
export CARGO_NET_OFFLINE=true
export VERIF_DIR="${DLTSIM_OUT_DIR:-$(pwd)}"   # DLTSIM_OUT_DIR: scratch output dir for experiments (seeded_eval.sh)
SIM=sim
BIN=$SIM/target/release/dltsim

build() {
  # cargo's change detection is mtime based; a content hash of /repo/src forces a rebuild of the
  # crate under test when its sources changed while mtimes were preserved
  local h
  h=$(find /repo/src -type f -print0 2>/dev/null | sort -z | xargs -0 sha256sum 2>/dev/null | sha256sum | cut -d' ' -f1)
  mkdir -p $SIM/target
  if [ "$(cat $SIM/target/.repo_src_hash 2>/dev/null)" != "$h" ] && [ -d $SIM/target/release ]; then
    (cd $SIM && cargo clean --release --offline -p dlt-core >/dev/null 2>&1)
  fi
  if ! (cd $SIM && cargo build --release --offline 2>target/build.log); then
    tail -40 $SIM/target/build.log
    echo "HARNESS-ERROR: build against /repo working tree failed"
    exit 2
  fi
  echo "$h" > $SIM/target/.repo_src_hash
}

case "${1:-}" in
  setup)
    build
    ;;
  replay)
    build
    exec $BIN replay "${2:?replay file}"
    ;;
  selftest)
    build
    shift
    exec ./selftest.sh "$@"
    ;;
  C[0-9][0-9])
    build
    exec $BIN check "$1" "${2:-quick}"
    ;;
  *)
    echo "usage: $0 setup | <ID> <quick|thorough> | replay <file> | selftest determinism"
    exit 2
    ;;
esac
