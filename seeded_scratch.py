#!/usr/bin/env python3
"""./seeded_scratch.py <seeded dir>... : run the quick check of the property a seeded change breaks
against a throw-away copy of /repo with the change applied (nothing in /repo is touched). Same
machinery as mutants.py; used while long runs that read /repo are in flight. The authoritative run
is seeded_eval.sh (git -C /repo apply; check; git checkout)."""
import json, os, shutil, subprocess, sys, tempfile

def sh(cmd, **kw):
    return subprocess.run(cmd, shell=True, text=True, capture_output=True, **kw)

def main():
    dirs = [d.rstrip('/') for i, d in enumerate(sys.argv[1:], 1) if not d.startswith('--') and sys.argv[i - 1] != '--keep']
    tier = 'thorough' if '--thorough' in sys.argv else 'quick'
    scratch = tempfile.mkdtemp(prefix="dltseed-", dir="/tmp")
    try:
        env = dict(os.environ, CARGO_NET_OFFLINE="true", VERIF_REPO_SRC=f"{scratch}/repo/src", VERIF_DIR=f"{scratch}/vd", CARGO_TARGET_DIR=f"{scratch}/target")
        os.makedirs(f"{scratch}/shadow/dlt-core")
        t = open("/verif/shadow/dlt-core/Cargo.toml").read().replace('/repo/src/lib.rs', f'{scratch}/repo/src/lib.rs')
        open(f"{scratch}/shadow/dlt-core/Cargo.toml", "w").write(t)
        shutil.copytree("/verif/sim", f"{scratch}/sim", ignore=shutil.ignore_patterns("target"))
        for d in dirs:
            meta = json.load(open(f"{d}/meta.json"))
            prop = meta["property"]
            shutil.rmtree(f"{scratch}/repo", ignore_errors=True)
            sh(f"git -C /repo archive HEAD | tar -x -C {scratch}/repo", ) if False else None
            os.makedirs(f"{scratch}/repo")
            sh(f"git -C /repo archive HEAD src Cargo.toml tests | tar -x -C {scratch}/repo")
            r = sh(f"cd {scratch}/repo && git init -q . && git apply {os.path.abspath(d)}/patch.diff")
            if r.returncode != 0:
                print(f"RESULT {os.path.basename(d)} {prop} PATCH-DOES-NOT-APPLY {r.stderr[-300:]}"); continue
            shutil.rmtree(f"{scratch}/repo/.git", ignore_errors=True)
            shutil.rmtree(f"{scratch}/vd", ignore_errors=True)
            os.makedirs(f"{scratch}/vd")
            if '--no-regress' not in sys.argv:
                shutil.copytree("/verif/regress", f"{scratch}/vd/regress")
            shutil.copy("/verif/known_findings.json", f"{scratch}/vd/known_findings.json")
            b = sh("cargo build --release --offline", cwd=f"{scratch}/sim", env=env)
            if b.returncode != 0:
                print(f"RESULT {os.path.basename(d)} {prop} BUILD-FAILED\n{b.stderr[-800:]}"); continue
            if '--all-props' in sys.argv:
                # every registered check against this change (used for benign changes: which checks stay silent)
                for q in ["C03", "C04", "C05", "C06", "C07", "C08", "C10", "C12", "C16"]:
                    rq = sh(f"{scratch}/target/release/dltsim check {q} {tier}", env=env)
                    sig = [l.strip() for l in rq.stdout.splitlines() if l.strip().startswith(("clause/signature", "HARNESS"))]
                    print(f"ALLPROPS {os.path.basename(d)} check={q} exit={rq.returncode} {sig[:3]}")
                    if rq.returncode == 2:
                        print("STDOUT-TAIL:", rq.stdout[-1500:]); print("STDERR-TAIL:", rq.stderr[-2500:])
                    sys.stdout.flush()
                continue
            r = sh(f"{scratch}/target/release/dltsim check {prop} {tier}", env=env)
            lines = [l for l in r.stdout.splitlines() if l.startswith(("VIOLATION", "  clause", "  detail", "[C", "HARNESS"))]
            print("\n".join(lines[:10]))
            if '--keep' in sys.argv:
                keep = sys.argv[sys.argv.index('--keep') + 1]
                shutil.rmtree(f"{keep}/{os.path.basename(d)}", ignore_errors=True)
                shutil.copytree(f"{scratch}/vd", f"{keep}/{os.path.basename(d)}")
            print(f"RESULT {os.path.basename(d)} {prop} {'CAUGHT' if r.returncode == 1 else 'MISSED (exit %d)' % r.returncode}")
            sys.stdout.flush()
    finally:
        shutil.rmtree(scratch, ignore_errors=True)

if __name__ == "__main__":
    main()
