//! S-STAT — C10: statistics count every message once per id and merge like a sum.

use crate::case::{GenInfo, StreamCase};
use crate::core::{guarded, panic_site, run_seed, RunResult, Stats, Tier, Violation};
use crate::faults::Confine;
use crate::model::*;
use crate::rng::{Fnv, Rng};
use crate::scen_common::{build, draw_capacities, BuildOpts};
use crate::source::{Core, Dec, Policy, ScriptedRead};
use dlt_core::dlt::{Endianness, ExtendedHeader, StandardHeader, StorageHeader};
use dlt_core::parse::DltParseError;
use dlt_core::read::DltMessageReader;
use dlt_core::statistics::common::{LevelDistribution, StatisticInfo, StatisticInfoCollector};
use dlt_core::statistics::{collect_statistics, Statistic, StatisticCollector};
use std::cell::RefCell;
use std::collections::BTreeMap;
use std::rc::Rc;

pub const TAG: u64 = 0xC10;

pub fn generate(seed: u64, run: u64, _tier: Tier, st: &mut Stats) -> StreamCase {
    let s = run_seed(seed, TAG, run);
    let mut rw = Rng::fork(s, 1);
    let mut rf = Rng::fork(s, 2);
    let mut rs = Rng::fork(s, 3);
    // well-formed streams only (C10's quantifier); the only medium fault is truncation
    let max_records = if rw.chance(1, 10) { 200 } else { 40 };
    // 1 run in 200: a wide stream — 700..1400 tiny records over a large id alphabet, split in few
    // parts, so that id lists of several hundred entries meet in one merge
    let wide = rw.chance(1, 200);
    let b = build(
        &mut rw,
        &mut rf,
        &BuildOpts { max_records, confine: Confine::Payload, clean_pct: 100, foreign_pct: 4, storage: None, stats_swarm: true, soup_pct: 0, wide_records: if wide { 700 } else { 0 } },
        st,
    );
    let mut medium = b.medium.bytes.clone();
    let mut notes = vec![];
    if rf.chance(1, 5) && !medium.is_empty() {
        let at = rf.below(medium.len());
        medium.truncate(at);
        notes.push(format!("F-TRUNC at {}", at));
        st.inc("F-TRUNC");
    }
    let mut policy = Policy::draw(&mut rs, b.medium.boundaries.clone(), false);
    let len = medium.len();
    if rs.chance(1, 10) {
        policy.err_at = Some((rs.below(len + 1), rs.below(5) as u8));
    } else if rs.chance(1, 10) {
        policy.eof_at = Some(rs.below(len + 1));
    }
    let (buf_cap, msg_max) = draw_capacities(&mut rs, &medium, b.storage, 3);
    // history: split points, identities, merge order — all modulo-decoded, so any vector is valid
    let parts = if wide { 2 + rs.below(2) } else { 1 + rs.below(8) };
    if wide {
        st.inc("wide_streams");
    }
    let mut aux = vec![parts as u64];
    for _ in 1..parts {
        aux.push(rs.next_u64() >> 40);
    }
    aux.push(rs.below(3) as u64);
    for _ in 0..(2 * (parts + 2)) {
        aux.push(rs.next_u64() >> 40);
    }
    StreamCase {
        prop: "C10".into(),
        mode: "stat".into(),
        storage: b.storage,
        medium,
        buf_cap,
        msg_max,
        aux,
        gen: Some(GenInfo { policy, sched_seed: rs.next_u64(), co_policies: vec![] }),
        notes,
        seed,
        run,
        ..Default::default()
    }
}

/// independent reading of MSIN as the Debug text of the expected MessageType
pub fn expected_msgtype_debug(msin: u8) -> String {
    let mstp = (msin >> 1) & 7;
    let mtin = msin >> 4;
    match mstp {
        0 => format!(
            "Log({})",
            match mtin {
                1 => "Fatal".to_string(),
                2 => "Error".to_string(),
                3 => "Warn".to_string(),
                4 => "Info".to_string(),
                5 => "Debug".to_string(),
                6 => "Verbose".to_string(),
                n => format!("Invalid({})", n),
            }
        ),
        1 => format!(
            "ApplicationTrace({})",
            match mtin {
                1 => "Variable".to_string(),
                2 => "FunctionIn".to_string(),
                3 => "FunctionOut".to_string(),
                4 => "State".to_string(),
                5 => "Vfb".to_string(),
                n => format!("Invalid({})", n),
            }
        ),
        2 => format!(
            "NetworkTrace({})",
            match mtin {
                0 => "Invalid".to_string(),
                1 => "Ipc".to_string(),
                2 => "Can".to_string(),
                3 => "Flexray".to_string(),
                4 => "Most".to_string(),
                5 => "Ethernet".to_string(),
                6 => "Someip".to_string(),
                n => format!("UserDefined({})", n),
            }
        ),
        3 => format!(
            "Control({})",
            match mtin {
                1 => "Request".to_string(),
                2 => "Response".to_string(),
                n => format!("Unknown({})", n),
            }
        ),
        v => format!("Unknown(({}, {}))", v, mtin),
    }
}

fn check_headers(h: &HdrView, sh: &Option<StorageHeader>, std: &StandardHeader, ext: &Option<ExtendedHeader>) -> Option<String> {
    if let Some(secu) = &h.storage_ecu {
        match sh {
            None => return Some("storage header missing".into()),
            Some(s) => {
                if s.ecu_id != *secu || s.timestamp.seconds != h.storage_secs || s.timestamp.microseconds != h.storage_micros {
                    return Some(format!("storage header {:?} vs bytes (ecu {:?}, {} s, {} us)", s, secu, h.storage_secs, h.storage_micros));
                }
            }
        }
    } else if sh.is_some() {
        return Some("unexpected storage header".into());
    }
    let exp_payload = h.len as i64 - h.headers_len as i64;
    if std.version != h.htyp >> 5
        || (std.endianness == Endianness::Big) != (h.htyp & 2 != 0)
        || std.has_extended_header != (h.htyp & 1 != 0)
        || std.message_counter != h.mcnt
        || std.ecu_id != h.ecu
        || std.session_id != h.seid
        || std.timestamp != h.tmsp
        || std.payload_length as i64 != exp_payload
    {
        return Some(format!("standard header {:?} vs bytes {:?}", std, h));
    }
    match (ext, h.msin) {
        (None, None) => {}
        (Some(e), Some(msin)) => {
            if e.verbose != (msin & 1 != 0)
                || Some(e.argument_count) != h.noar
                || Some(&e.application_id) != h.apid.as_ref()
                || Some(&e.context_id) != h.ctid.as_ref()
                || format!("{:?}", e.message_type) != expected_msgtype_debug(msin)
            {
                return Some(format!("extended header {:?} vs bytes {:?} (expected type {})", e, h, expected_msgtype_debug(msin)));
            }
        }
        _ => return Some("extended header presence differs from HTYP".into()),
    }
    None
}

struct Visit {
    storage: Option<StorageHeader>,
    std: StandardHeader,
    ext: Option<ExtendedHeader>,
    payload_len: usize,
    level: Option<String>,
    verbose: bool,
}

#[derive(Default)]
struct Recording {
    visits: Vec<Visit>,
}
impl StatisticCollector for Recording {
    fn collect_statistic(&mut self, s: Statistic) -> Result<(), DltParseError> {
        self.visits.push(Visit {
            storage: s.storage_header,
            std: s.standard_header,
            ext: s.extended_header,
            payload_len: s.payload.len(),
            level: s.log_level.map(|l| format!("{:?}", l)),
            verbose: s.is_verbose,
        });
        Ok(())
    }
}

fn dist_arr(d: &LevelDistribution) -> [usize; 8] {
    [d.non_log, d.log_fatal, d.log_error, d.log_warning, d.log_info, d.log_debug, d.log_verbose, d.log_invalid]
}

/// StatisticInfo as sorted maps; Err if an id appears twice
fn info_maps(i: &StatisticInfo) -> Result<(BTreeMap<String, [usize; 8]>, BTreeMap<String, [usize; 8]>, BTreeMap<String, [usize; 8]>, bool), String> {
    let conv = |v: &Vec<(String, LevelDistribution)>, what: &str| -> Result<BTreeMap<String, [usize; 8]>, String> {
        let mut m = BTreeMap::new();
        for (k, d) in v {
            if m.insert(k.clone(), dist_arr(d)).is_some() {
                return Err(format!("{} id {:?} appears twice", what, k));
            }
        }
        Ok(m)
    };
    Ok((conv(&i.app_ids, "application")?, conv(&i.context_ids, "context")?, conv(&i.ecu_ids, "ecu")?, i.contained_non_verbose))
}

fn collect_slice(bytes: &[u8], storage: bool) -> Result<StatisticInfo, String> {
    let mut reader = DltMessageReader::new(bytes, storage);
    let mut c = StatisticInfoCollector::default();
    match guarded(|| collect_statistics(&mut reader, &mut c)) {
        Ok(_) => Ok(c.collect()),
        Err(p) => Err(p),
    }
}

pub struct Exec {
    pub violations: Vec<Violation>,
    pub hist: u64,
    pub taken: Vec<Dec>,
    pub nontrivial: bool,
    pub key: u64,
}

pub fn execute(case: &StreamCase, st: &mut Stats) -> Exec {
    let data = Rc::new(case.medium.clone());
    let (policy, rng) = match &case.gen {
        Some(g) => (Some(g.policy.clone()), Rng::new(g.sched_seed)),
        None => (None, Rng::new(0)),
    };
    let mut v: Vec<Violation> = vec![];
    let mut h = Fnv::default();

    // ---- (i) recording collector and standard collector through a fragmenting source ---------
    let run_collect = |collector: &mut dyn FnMut(&mut DltMessageReader<ScriptedRead>) -> Result<Result<(), DltParseError>, String>| {
        let core = Rc::new(RefCell::new(Core::new(data.clone(), case.script.clone(), policy.clone(), rng.clone())));
        let src = ScriptedRead(core.clone());
        let mut reader = if case.buf_cap == 0 && case.msg_max == 0 {
            DltMessageReader::new(src, case.storage)
        } else {
            DltMessageReader::with_capacity(case.buf_cap, case.msg_max, src, case.storage)
        };
        let r = collector(&mut reader);
        drop(reader);
        (r, core)
    };
    let mut rec = Recording::default();
    let (r1, core1) = run_collect(&mut |reader| guarded(|| collect_statistics(reader, &mut rec)));
    let mut std_c = StatisticInfoCollector::default();
    let (r2, core2) = run_collect(&mut |reader| guarded(|| collect_statistics(reader, &mut std_c)));
    let core = core1.borrow();
    let failed = core.failed.is_some();
    let eff: &[u8] = if failed || core.eof_forced { &data[..core.pos] } else { &data[..] };
    let (pieces, term) = cut_all(eff, case.storage);
    h.u64(core.log.0);
    h.u64(core2.borrow().log.0);
    st.add("source_calls", core.stats.calls + core2.borrow().stats.calls);
    st.add("source_interrupted", core.stats.interrupted);
    st.add("source_short_reads", core.stats.short_reads);
    st.add("records_expected", pieces.len() as u64);
    if core.stats.interrupted > 0 {
        st.inc("runs_with_interrupted");
    }
    if failed {
        st.inc("runs_with_hard_error");
    }
    if core.eof_forced {
        st.inc("runs_with_early_eof");
    }
    let clean_end = term == Cut::Eos(0) && !failed;
    // precondition of C10: a well-formed stream. A piece whose LEN is smaller than the headers its
    // HTYP announces, or (storage mode) that does not start with the pattern, is outside the
    // property; such media only arise while a failing case is being shrunk.
    for (a, b) in &pieces {
        let ok = match decode_headers(&eff[*a..*b], case.storage) {
            Some(hv) => hv.len >= hv.headers_len && (!case.storage || eff[*a..*a + 4] == PATTERN),
            None => false,
        };
        if !ok {
            return Exec { violations: vec![], hist: h.0, taken: core.taken.clone(), nontrivial: false, key: 0 };
        }
    }

    for (which, r) in [("recording", &r1), ("standard", &r2)] {
        match r {
            Err(p) => v.push(Violation::new("C10.a", &format!("panic@{}", panic_site(p)), format!("collect_statistics ({} collector) panicked: {}", which, p))),
            Ok(Err(e)) if clean_end => v.push(Violation::new("C10.a", "error-on-wellformed-stream", format!("collect_statistics ({} collector) returned {:?} on a complete well-formed stream", which, e))),
            _ => {}
        }
    }
    // C10.a exactly one visit per record, in order, with the decoded headers
    let mut tally = Tally::default();
    if v.is_empty() {
        if rec.visits.len() != pieces.len() {
            v.push(Violation::new("C10.a", "visit-count", format!("{} visits for {} records ({:?})", rec.visits.len(), pieces.len(), term)));
        } else {
            for (i, (a, b)) in pieces.iter().enumerate() {
                let Some(hv) = decode_headers(&eff[*a..*b], case.storage) else {
                    // a record shorter than its own headers is not well-formed; outside C10
                    return Exec { violations: vec![], hist: h.0, taken: core.taken.clone(), nontrivial: false, key: 0 };
                };
                if hv.len < hv.headers_len {
                    return Exec { violations: vec![], hist: h.0, taken: core.taken.clone(), nontrivial: false, key: 0 };
                }
                let vis = &rec.visits[i];
                if let Some(why) = check_headers(&hv, &vis.storage, &vis.std, &vis.ext) {
                    v.push(Violation::new("C10.a", "visit-headers", format!("visit {}: {}", i, why)));
                    break;
                }
                h.u64(vis.payload_len as u64);
                h.str(vis.level.as_deref().unwrap_or("-"));
                h.u64(vis.verbose as u64);
                tally.add(&hv);
            }
        }
    }
    // C10.b standard collector equals the tally
    let whole = std_c.collect();
    if v.is_empty() {
        match info_maps(&whole) {
            Err(e) => v.push(Violation::new("C10.b", "duplicate-id", e)),
            Ok((app, ctx, ecu, nv)) => {
                let total: usize = ecu.values().map(|a| a.iter().sum::<usize>()).sum();
                if app != tally.app || ctx != tally.ctx || ecu != tally.ecu {
                    v.push(Violation::new("C10.b", "tally-differs", format!("collector app={:?} ctx={:?} ecu={:?} vs tally app={:?} ctx={:?} ecu={:?}", app, ctx, ecu, tally.app, tally.ctx, tally.ecu)));
                } else if nv != tally.non_verbose {
                    v.push(Violation::new("C10.b", "non-verbose-flag", format!("contained_non_verbose={} but tally says {}", nv, tally.non_verbose)));
                } else if total != pieces.len() {
                    v.push(Violation::new("C10.b", "ecu-total", format!("ECU totals sum to {} for {} records", total, pieces.len())));
                }
                for m in [&app, &ctx, &ecu] {
                    for a in m.values() {
                        for (i, n) in a.iter().enumerate() {
                            if *n > 0 {
                                st.add(["bucket_nonlog", "bucket_fatal", "bucket_error", "bucket_warn", "bucket_info", "bucket_debug", "bucket_verbose", "bucket_invalid"][i], *n as u64);
                            }
                        }
                    }
                }
            }
        }
    }
    // ---- (ii) split, collect the parts, merge along the drawn history --------------------------
    let complete = pieces.last().map_or(0, |p| p.1);
    let stream = &eff[..complete];
    if v.is_empty() {
        let aux = &case.aux;
        let nparts = (aux.first().copied().unwrap_or(1) as usize).clamp(1, 8);
        let mut cuts: Vec<usize> = (1..nparts).map(|i| (aux.get(i).copied().unwrap_or(0) as usize) % (pieces.len() + 1)).collect();
        cuts.sort_unstable();
        let mut bounds = vec![0usize];
        for c in &cuts {
            bounds.push(if *c == 0 { 0 } else { pieces[*c - 1].1 });
        }
        bounds.push(complete);
        let idents = (aux.get(nparts).copied().unwrap_or(0) % 3) as usize;
        let mut live: Vec<StatisticInfo> = vec![];
        let mut empty_parts = 0;
        for w in bounds.windows(2) {
            if w[0] == w[1] {
                empty_parts += 1;
            }
            match collect_slice(&stream[w[0]..w[1]], case.storage) {
                Ok(i) => live.push(i),
                Err(p) => {
                    v.push(Violation::new("C10.c", &format!("panic@{}", panic_site(&p)), format!("collecting part [{}..{}) panicked: {}", w[0], w[1], p)));
                    break;
                }
            }
        }
        if v.is_empty() {
            for k in 0..idents {
                // identities are inserted at drawn positions
                let pos = (aux.get(nparts + 1 + k).copied().unwrap_or(0) as usize) % (live.len() + 1);
                live.insert(pos, StatisticInfo::new());
            }
            st.add("merge_parts", live.len() as u64);
            st.add("merge_empty_parts", empty_parts);
            st.add("merge_identities", idents as u64);
            let mut k = nparts + 3;
            let mut order = vec![];
            while live.len() > 1 {
                let i = (aux.get(k).copied().unwrap_or(0) as usize) % live.len();
                let mut j = (aux.get(k + 1).copied().unwrap_or(1) as usize) % (live.len() - 1);
                if j >= i {
                    j += 1;
                }
                k += 2;
                let b = live.remove(j);
                let i2 = if j < i { i - 1 } else { i };
                let r = guarded(|| live[i2].merge(b));
                order.push((i, j));
                if let Err(p) = r {
                    v.push(Violation::new("C10.c", &format!("panic@{}", panic_site(&p)), format!("merge panicked: {}", p)));
                    break;
                }
                st.inc("merges");
                if j < i {
                    st.inc("merges_right_into_left_reversed");
                }
            }
            if v.is_empty() {
                let merged = info_maps(&live[0]);
                let whole_ref = collect_slice(stream, case.storage).ok().and_then(|i| info_maps(&i).ok());
                match (merged, whole_ref) {
                    (Err(e), _) => v.push(Violation::new("C10.c", "duplicate-id-after-merge", format!("{} (merge order {:?})", e, order))),
                    (Ok(m), Some(w)) => {
                        if m != w {
                            v.push(Violation::new("C10.c", "merge-differs", format!("merged parts {:?} != whole stream {:?} (bounds {:?}, merge order {:?}, {} identities)", m, w, bounds, order, idents)));
                        }
                        h.str(&format!("{:?}", m));
                    }
                    _ => {}
                }
            }
        }
    }
    let mut key = Fnv::default();
    key.bytes(&data);
    key.u64(core.script_hash());
    for a in &case.aux {
        key.u64(*a);
    }
    let nontrivial = pieces.len() >= 2 && (core.inner_boundaries() > 0 || case.aux.first().copied().unwrap_or(1) > 1);
    Exec { violations: v, hist: h.0, taken: core.taken.clone(), nontrivial, key: key.0 }
}

pub fn eval(case: &StreamCase) -> Vec<Violation> {
    let mut st = Stats::default();
    execute(case, &mut st).violations
}

pub fn one_run(seed: u64, run: u64, tier: Tier, st: &mut Stats) -> (RunResult, Option<StreamCase>) {
    let case = generate(seed, run, tier, st);
    let ex = execute(&case, st);
    st.distinct.insert(ex.key);
    if ex.nontrivial {
        st.nontrivial.insert(ex.key);
    }
    let failing = if ex.violations.is_empty() {
        None
    } else {
        let mut c = case.clone();
        c.script = ex.taken.clone();
        c.gen = None;
        Some(c)
    };
    (RunResult { violations: ex.violations, hist: ex.hist }, failing)
}
