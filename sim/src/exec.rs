//! Hand-written single-threaded executor for the async scenario. Every scheduling decision —
//! which woken task to poll, when a parked waker fires (and whether twice), spurious polls — is a
//! recorded choice; "time" is a tick counter that jumps to the next wake event.

use crate::core::guarded;
use crate::rng::Rng;
use crate::source::ParkLot;
use std::future::Future;
use std::pin::Pin;
use std::sync::atomic::{AtomicBool, AtomicU64, Ordering};
use std::sync::Arc;
use std::task::{Context, Poll, Wake, Waker};

pub struct Flag {
    pub woken: AtomicBool,
    pub wakes: AtomicU64,
}
impl Wake for Flag {
    fn wake(self: Arc<Self>) {
        self.woken.store(true, Ordering::SeqCst);
        self.wakes.fetch_add(1, Ordering::SeqCst);
    }
    fn wake_by_ref(self: &Arc<Self>) {
        self.woken.store(true, Ordering::SeqCst);
        self.wakes.fetch_add(1, Ordering::SeqCst);
    }
}

pub struct TaskSlot<'a> {
    pub fut: Option<Pin<Box<dyn Future<Output = ()> + 'a>>>,
    pub flag: Arc<Flag>,
    pub polls: u64,
    pub spurious: u64,
    pub panicked: Option<String>,
}

struct Event {
    tick: u64,
    seq: u64,
    waker: Waker,
}
// a min-heap on (tick, seq): `seq` is unique, so the order is total and the choice of the next
// event is the same as a linear search for the minimum (which was quadratic over a Pending-heavy
// schedule on a long medium: 39 s for one run)
impl PartialEq for Event {
    fn eq(&self, o: &Self) -> bool {
        (self.tick, self.seq) == (o.tick, o.seq)
    }
}
impl Eq for Event {}
impl PartialOrd for Event {
    fn partial_cmp(&self, o: &Self) -> Option<std::cmp::Ordering> {
        Some(self.cmp(o))
    }
}
impl Ord for Event {
    fn cmp(&self, o: &Self) -> std::cmp::Ordering {
        (o.tick, o.seq).cmp(&(self.tick, self.seq))
    }
}

#[derive(Default, Debug, Clone)]
pub struct ExecStats {
    pub steps: u64,
    pub polls: u64,
    pub spurious_polls: u64,
    pub wake_events: u64,
    pub double_wakes: u64,
    pub ticks: u64,
    pub lost_wakeup: bool,
    pub overrun: bool,
}

pub struct Executor<'a> {
    pub tasks: Vec<TaskSlot<'a>>,
    pub lot: ParkLot,
    events: std::collections::BinaryHeap<Event>,
    now: u64,
    seq: u64,
    script: Vec<u8>,
    idx: usize,
    rng: Option<Rng>,
    pub taken: Vec<u8>,
    pub stats: ExecStats,
}

impl<'a> Executor<'a> {
    pub fn new(lot: ParkLot, script: Vec<u8>, rng: Option<Rng>) -> Self {
        Executor { tasks: vec![], lot, events: std::collections::BinaryHeap::new(), now: 0, seq: 0, script, idx: 0, rng, taken: vec![], stats: ExecStats::default() }
    }
    pub fn spawn(&mut self, fut: Pin<Box<dyn Future<Output = ()> + 'a>>) -> usize {
        self.tasks.push(TaskSlot {
            fut: Some(fut),
            flag: Arc::new(Flag { woken: AtomicBool::new(true), wakes: AtomicU64::new(0) }),
            polls: 0,
            spurious: 0,
            panicked: None,
        });
        self.tasks.len() - 1
    }

    /// pick one of `n` enabled actions; `weights` only matter while generating
    fn choose(&mut self, weights: &[u32]) -> usize {
        let n = weights.len();
        let c = if self.idx < self.script.len() {
            let c = self.script[self.idx] as usize % n;
            self.idx += 1;
            c
        } else if let Some(r) = self.rng.as_mut() {
            r.weighted(weights)
        } else {
            0
        };
        self.taken.push(c as u8);
        c
    }

    fn poll_task(&mut self, t: usize, spurious: bool) {
        let slot = &mut self.tasks[t];
        slot.flag.woken.store(false, Ordering::SeqCst);
        slot.polls += 1;
        if spurious {
            slot.spurious += 1;
            self.stats.spurious_polls += 1;
        }
        self.stats.polls += 1;
        let waker = Waker::from(slot.flag.clone());
        let mut cx = Context::from_waker(&waker);
        let fut = slot.fut.as_mut().unwrap();
        match guarded(|| fut.as_mut().poll(&mut cx)) {
            Ok(Poll::Ready(())) => slot.fut = None,
            Ok(Poll::Pending) => {}
            Err(p) => {
                slot.panicked = Some(p);
                slot.fut = None;
            }
        }
    }

    /// Run until every task is finished, a wake-up is lost, or the step cap is exceeded.
    pub fn run(&mut self, step_cap: u64) {
        loop {
            // parked wakers become wake events at now + delay (twice for a double wake)
            let parked: Vec<_> = self.lot.borrow_mut().drain(..).collect();
            for p in parked {
                self.seq += 1;
                self.events.push(Event { tick: self.now + p.delay as u64, seq: self.seq, waker: p.waker.clone() });
                if p.twice {
                    self.seq += 1;
                    self.events.push(Event { tick: self.now + p.delay as u64 + 1, seq: self.seq, waker: p.waker });
                    self.stats.double_wakes += 1;
                }
            }
            if self.tasks.iter().all(|t| t.fut.is_none()) {
                break;
            }
            self.stats.steps += 1;
            if self.stats.steps > step_cap {
                self.stats.overrun = true;
                break;
            }
            // enabled actions, in a fixed order: polls of woken tasks, fire next event, spurious polls
            let woken: Vec<usize> = (0..self.tasks.len())
                .filter(|t| self.tasks[*t].fut.is_some() && self.tasks[*t].flag.woken.load(Ordering::SeqCst))
                .collect();
            let idle: Vec<usize> = (0..self.tasks.len())
                .filter(|t| self.tasks[*t].fut.is_some() && !self.tasks[*t].flag.woken.load(Ordering::SeqCst))
                .collect();
            let can_fire = !self.events.is_empty();
            if woken.is_empty() && !can_fire {
                // nothing runnable and no pending event while a task is unfinished
                self.stats.lost_wakeup = true;
                break;
            }
            let mut weights: Vec<u32> = vec![];
            for _ in &woken {
                weights.push(12);
            }
            if can_fire {
                weights.push(if woken.is_empty() { 30 } else { 8 });
            }
            for _ in &idle {
                weights.push(1);
            }
            let c = self.choose(&weights);
            if c < woken.len() {
                self.poll_task(woken[c], false);
            } else if can_fire && c == woken.len() {
                // earliest event by (tick, seq); the clock jumps to it
                let e = self.events.pop().unwrap();
                if e.tick > self.now {
                    self.stats.ticks += e.tick - self.now;
                    self.now = e.tick;
                }
                self.stats.wake_events += 1;
                e.waker.wake();
            } else {
                let k = c - woken.len() - can_fire as usize;
                self.poll_task(idle[k], true);
            }
        }
    }
}
