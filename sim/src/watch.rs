//! Crash and hang containment.
//!
//! A violation that unwinds (a panic) is caught where it happens. One that does not — a stack
//! overflow, an allocation the allocator refuses (abort), a loop that never ends — takes the
//! whole process with it. So a check runs in a child process; every worker writes the (stage, run)
//! it is about to execute into a journal file first (one `pwrite` per run), a watchdog thread
//! aborts the child when one run has burnt more CPU time than any legitimate run can, and the
//! parent (driver::supervise) reads the journal after an abnormal death, re-executes the in-flight
//! runs one by one in fresh processes, and turns the one that dies again into a minimised,
//! confirmed replay file. Wall-clock time is not used for a verdict: the hang budget is CPU time
//! of the thread that executes the run (a generous wall-clock limit exists only as a backstop for
//! a run that is blocked in the kernel).

use std::cell::Cell;
use std::fs::File;
use std::os::unix::fs::FileExt;
use std::sync::atomic::{AtomicI64, AtomicU64, Ordering};
use std::sync::OnceLock;

pub const STAGE_MAIN: u64 = 1; // seeded runs, no logger
pub const STAGE_ENUM: u64 = 2; // scenario enumeration
pub const STAGE_LOG: u64 = 3; // seeded runs, trace logger
pub const STAGE_REGRESS: u64 = 4; // regression replays (index = position in the sorted directory)
pub const STAGE_OTHER: u64 = 9; // minimiser, samples (harness work on the main thread)

const MAX_SLOTS: usize = 256;
const REC: u64 = 48;

#[repr(C)]
struct Timespec {
    tv_sec: i64,
    tv_nsec: i64,
}
#[repr(C)]
struct Rlimit {
    cur: u64,
    max: u64,
}
extern "C" {
    fn pthread_self() -> usize;
    fn pthread_getcpuclockid(thread: usize, clock_id: *mut i32) -> i32;
    fn clock_gettime(clk_id: i32, tp: *mut Timespec) -> i32;
    fn setrlimit(resource: i32, rlim: *const Rlimit) -> i32;
}
const RLIMIT_CPU: i32 = 0;
const RLIMIT_AS: i32 = 9;

struct Slot {
    stage: AtomicU64,
    run: AtomicU64,
    seq: AtomicU64,
    /// 0 = slot free, 1 = owned but no usable cpu clock, 2 = owned, `clock` is valid
    state: AtomicU64,
    /// cpu clock id of the owning thread (thread clock ids are negative numbers on Linux)
    clock: AtomicI64,
}
#[allow(clippy::declare_interior_mutable_const)]
const EMPTY: Slot = Slot { stage: AtomicU64::new(0), run: AtomicU64::new(0), seq: AtomicU64::new(0), state: AtomicU64::new(0), clock: AtomicI64::new(0) };
static SLOTS: [Slot; MAX_SLOTS] = [EMPTY; MAX_SLOTS];
static JOURNAL: OnceLock<Option<File>> = OnceLock::new();
static STAGE: AtomicU64 = AtomicU64::new(0);

thread_local! {
    static MY: Cell<usize> = const { Cell::new(usize::MAX) };
}

fn journal() -> Option<&'static File> {
    JOURNAL
        .get_or_init(|| std::env::var("DLTSIM_JOURNAL").ok().and_then(|p| std::fs::OpenOptions::new().read(true).write(true).create(true).truncate(false).open(p).ok()))
        .as_ref()
}

fn my_slot() -> Option<usize> {
    MY.with(|m| {
        if m.get() == usize::MAX {
            // claim a free slot (slots of finished threads are recycled)
            let Some(i) = (0..MAX_SLOTS).find(|i| SLOTS[*i].state.compare_exchange(0, 1, Ordering::SeqCst, Ordering::SeqCst).is_ok()) else {
                return None;
            };
            let mut clk: i32 = 0;
            let ok = unsafe { pthread_getcpuclockid(pthread_self(), &mut clk) } == 0;
            SLOTS[i].clock.store(clk as i64, Ordering::SeqCst);
            SLOTS[i].state.store(if ok { 2 } else { 1 }, Ordering::SeqCst);
            m.set(i);
        }
        Some(m.get())
    })
}

/// the stage the driver is in (seeded runs / enumeration / logger pass ...)
pub fn set_stage(s: u64) {
    STAGE.store(s, Ordering::SeqCst);
}
pub fn stage() -> u64 {
    STAGE.load(Ordering::SeqCst)
}

/// about to execute run `run` of the current stage on this thread
#[inline]
pub fn enter(run: u64) {
    enter_stage(stage(), run)
}
pub fn enter_stage(stage: u64, run: u64) {
    let Some(i) = my_slot() else { return };
    let s = &SLOTS[i];
    s.stage.store(stage, Ordering::Relaxed);
    s.run.store(run, Ordering::Relaxed);
    let seq = s.seq.fetch_add(1, Ordering::Release) + 1;
    if let Some(f) = journal() {
        let mut rec = [0u8; 24];
        rec[..8].copy_from_slice(&stage.to_le_bytes());
        rec[8..16].copy_from_slice(&run.to_le_bytes());
        rec[16..24].copy_from_slice(&seq.to_le_bytes());
        let _ = f.write_at(&rec, i as u64 * REC);
    }
}
/// progress note of a worker (its own counters so far): survives the death of the process, so
/// that the supervisor can report measured lower bounds instead of nothing
pub fn note_progress(distinct: u64, nontrivial: u64) {
    let Some(i) = my_slot() else { return };
    if let Some(f) = journal() {
        let mut rec = [0u8; 16];
        rec[..8].copy_from_slice(&distinct.to_le_bytes());
        rec[8..].copy_from_slice(&nontrivial.to_le_bytes());
        let _ = f.write_at(&rec, i as u64 * REC + 32);
    }
}
/// this thread is done with watched work (for now)
pub fn leave() {
    let Some(i) = my_slot() else { return };
    SLOTS[i].stage.store(0, Ordering::Release);
    if let Some(f) = journal() {
        let _ = f.write_at(&0u64.to_le_bytes(), i as u64 * REC);
    }
}
/// the thread is about to end: give the slot back
pub fn retire() {
    leave();
    MY.with(|m| {
        if m.get() != usize::MAX {
            SLOTS[m.get()].state.store(0, Ordering::SeqCst);
            m.set(usize::MAX);
        }
    });
}

fn cpu_ns(s: &Slot) -> Option<u64> {
    if s.state.load(Ordering::SeqCst) != 2 {
        return None;
    }
    let mut ts = Timespec { tv_sec: 0, tv_nsec: 0 };
    if unsafe { clock_gettime(s.clock.load(Ordering::SeqCst) as i32, &mut ts) } != 0 {
        return None;
    }
    Some(ts.tv_sec as u64 * 1_000_000_000 + ts.tv_nsec as u64)
}

pub fn hang_cpu_limit_s() -> u64 {
    std::env::var("VERIF_HANG_CPU_S").ok().and_then(|s| s.parse().ok()).unwrap_or(60)
}

/// Abort the process when one watched run has used more than the CPU budget (or, as a backstop
/// for a run blocked in the kernel, has not finished after 15 minutes of wall-clock time).
pub fn start_watchdog() {
    let limit_ns = hang_cpu_limit_s() * 1_000_000_000;
    std::thread::spawn(move || {
        // (seq seen, cpu at that moment, wall at that moment)
        let mut seen: Vec<(u64, u64, std::time::Instant)> = (0..MAX_SLOTS).map(|_| (0, 0, std::time::Instant::now())).collect();
        loop {
            std::thread::sleep(std::time::Duration::from_millis(250));
            for i in 0..MAX_SLOTS {
                let s = &SLOTS[i];
                if s.stage.load(Ordering::Acquire) == 0 {
                    seen[i].0 = 0;
                    continue;
                }
                let seq = s.seq.load(Ordering::Acquire);
                // without a cpu clock only the wall-clock backstop applies
                let cpu = cpu_ns(s).unwrap_or(0);
                if seen[i].0 != seq {
                    seen[i] = (seq, cpu, std::time::Instant::now());
                    continue;
                }
                let burnt = cpu.saturating_sub(seen[i].1);
                let stuck = seen[i].2.elapsed().as_secs() > 900;
                if burnt > limit_ns || stuck {
                    // seq may have moved on between the two loads: re-check before killing
                    if s.seq.load(Ordering::Acquire) != seq || s.stage.load(Ordering::Acquire) == 0 {
                        continue;
                    }
                    if let Some(f) = journal() {
                        let _ = f.write_at(&1u64.to_le_bytes(), i as u64 * REC + 24);
                        let _ = f.sync_all();
                    }
                    eprintln!(
                        "WATCHDOG: stage {} run {} has used {:.1} s of CPU without finishing{}; aborting this process",
                        s.stage.load(Ordering::Relaxed),
                        s.run.load(Ordering::Relaxed),
                        burnt as f64 / 1e9,
                        if stuck { " (wall-clock backstop)" } else { "" }
                    );
                    std::process::abort();
                }
            }
        }
    });
}

/// address-space limit for a child process: an absurd allocation fails (and aborts) instead of
/// pushing the machine into the OOM killer
pub fn limit_memory() {
    let gb: u64 = std::env::var("VERIF_MEM_LIMIT_GB").ok().and_then(|s| s.parse().ok()).unwrap_or(24);
    if gb == 0 {
        return;
    }
    let l = Rlimit { cur: gb << 30, max: gb << 30 };
    unsafe {
        setrlimit(RLIMIT_AS, &l);
    }
}
/// CPU limit for a process that executes one single case (probe / replay)
pub fn limit_cpu(seconds: u64) {
    let l = Rlimit { cur: seconds, max: seconds + 5 };
    unsafe {
        setrlimit(RLIMIT_CPU, &l);
    }
}

/// one record of the journal as the parent reads it after the child died
#[derive(Debug, Clone)]
pub struct InFlight {
    pub stage: u64,
    pub run: u64,
    pub hang: bool,
}
/// (runs in flight, runs started, largest per-worker count of distinct cases, ... of non-trivial cases)
pub fn read_journal(path: &str) -> (Vec<InFlight>, u64, u64, u64) {
    let Ok(b) = std::fs::read(path) else { return (vec![], 0, 0, 0) };
    let mut out = vec![];
    let mut started = 0u64;
    let (mut distinct, mut nontrivial) = (0u64, 0u64);
    for rec in b.chunks(REC as usize) {
        if rec.len() < 32 {
            break;
        }
        if rec.len() >= 48 {
            distinct = distinct.max(u64::from_le_bytes(rec[32..40].try_into().unwrap()));
            nontrivial = nontrivial.max(u64::from_le_bytes(rec[40..48].try_into().unwrap()));
        }
        let g = |o: usize| u64::from_le_bytes(rec[o..o + 8].try_into().unwrap());
        started += g(16);
        if g(0) != 0 {
            out.push(InFlight { stage: g(0), run: g(8), hang: g(24) != 0 });
        }
    }
    (out, started, distinct, nontrivial)
}
