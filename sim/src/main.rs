//! dltsim — deterministic simulation with fault injection around the real dlt-core readers and
//! parsers. See /verif/DESIGN.md.
//!
//!   dltsim check <ID> <quick|thorough>
//!   dltsim replay <file>
//!   dltsim selftest determinism

mod case;
mod core;
mod dict;
mod driver;
mod exec;
mod faults;
mod gen;
mod model;
mod rng;
mod scen_common;
mod scen_fibex;
mod scen_poll;
mod scen_read;
mod scen_slice;
mod scen_stat;
mod scenarios;
mod source;
mod watch;

use crate::core::Tier;

fn main() {
    core::install_panic_hook();
    let args: Vec<String> = std::env::args().collect();
    let all = scenarios::all();
    let refs: Vec<&dyn driver::Scenario> = all.iter().map(|b| b.as_ref()).collect();
    let code = match args.get(1).map(|s| s.as_str()) {
        Some(cmd @ ("check" | "check-child")) => {
            let id = args.get(2).cloned().unwrap_or_default();
            let tier = match std::env::var("VERIF_TIER").ok().as_deref().or(args.get(3).map(|s| s.as_str())) {
                Some("thorough") => Tier::Thorough,
                _ => Tier::Quick,
            };
            match refs.iter().find(|s| s.prop() == id) {
                Some(sc) => {
                    if cmd == "check" && std::env::var("DLTSIM_NO_SUPERVISOR").is_err() {
                        // the check itself runs in a child process (crash / hang containment)
                        driver::supervise_check(*sc, tier)
                    } else {
                        watch::limit_memory();
                        watch::start_watchdog();
                        driver::run_check(*sc, tier).exit_code()
                    }
                }
                None => {
                    println!("HARNESS-ERROR: no check for property {:?}", id);
                    2
                }
            }
        }
        Some("replay") => driver::supervise_replay(args.get(2).map(|s| s.as_str()).unwrap_or("")),
        Some("replay-child") => {
            watch::limit_memory();
            watch::limit_cpu(driver::single_case_cpu_limit_s());
            driver::run_replay(args.get(2).map(|s| s.as_str()).unwrap_or(""), &refs)
        }
        Some("probe") => {
            watch::limit_memory();
            watch::limit_cpu(driver::single_case_cpu_limit_s());
            driver::run_probe(&args[2..], &refs)
        }
        Some("selftest") => scenarios::selftest(args.get(2).map(|s| s.as_str()).unwrap_or(""), &refs),
        _ => {
            println!("usage: dltsim check <ID> <quick|thorough> | replay <file> | selftest determinism");
            2
        }
    };
    scen_fibex::cleanup_base();
    std::process::exit(code);
}
