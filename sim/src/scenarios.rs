//! Registration of the per-property scenarios with the driver.

use crate::case::StreamCase;
use crate::core::*;
use crate::driver::Scenario;
use crate::faults::FAULT_KEYS;
use crate::scen_common::minimise;
use crate::scen_slice::Focus;
use serde_json::{json, Value as J};
use std::collections::BTreeMap;

/// every evaluation of a materialised case (replay, minimiser) runs on a thread of its own, so
/// that it sees what a fresh process would see even if the crate under test keeps thread-local
/// state across calls
fn fresh<T: Send>(f: impl FnOnce() -> T + Send) -> T {
    crate::driver::on_fresh_thread(f)
}

fn ev_base(prop: &'static str, tier: Tier, seed: u64, level: &'static str, rule: &str) -> Evidence {
    Evidence {
        prop,
        tier,
        seed,
        level,
        rule: rule.to_string(),
        samples: vec![],
        assumptions: vec![],
        real_vs_stub: real_vs_stub_default(),
        extra: BTreeMap::new(),
        fault_kinds: FAULT_KEYS.to_vec(),
        harness_probes: vec![],
        crate_probes: vec![],
        step_keys: vec![],
        exhaustive: false,
    }
}

// ------------------------------------------------------------------------------------------ C07
pub struct C07;
impl Scenario for C07 {
    fn prop(&self) -> &'static str {
        "C07"
    }
    fn runs(&self, tier: Tier) -> u64 {
        match tier {
            Tier::Quick => 300_000,
            Tier::Thorough => 12_000_000,
        }
    }
    fn log_runs(&self, tier: Tier) -> u64 {
        match tier {
            Tier::Quick => 50_000,
            Tier::Thorough => 1_200_000,
        }
    }
    fn one_run(&self, seed: u64, run: u64, tier: Tier, st: &mut Stats) -> (RunResult, Option<J>) {
        let (r, c) = crate::scen_read::one_run(seed, run, tier, st);
        (r, c.map(|c| c.to_json()))
    }
    fn eval(&self, case: &J) -> Vec<Violation> {
        let c = StreamCase::from_json(case);
        fresh(|| crate::scen_read::eval(&c))
    }
    fn minimise(&self, case: &J, sig: &str) -> J {
        minimise(&StreamCase::from_json(case), sig, &|c: &StreamCase| fresh(|| crate::scen_read::eval(c)), 60000).to_json()
    }
    fn case_for_run(&self, seed: u64, run: u64, tier: Tier) -> J {
        crate::scen_read::generate(seed, run, tier, &mut Stats::default()).0.to_json()
    }
    fn enumerate_case(&self, _tier: Tier, seed: u64, idx: u64) -> Option<J> {
        Some(crate::scen_read::big_stream_case("C07", seed, idx, false).to_json())
    }
    fn minimise_ext(&self, case: &J, sig: &str, eval: &dyn Fn(&J) -> Vec<Violation>, budget: usize) -> J {
        minimise(&StreamCase::from_json(case), sig, &|c: &StreamCase| eval(&c.to_json()), budget).to_json()
    }
    fn sample(&self, seed: u64, run: u64, tier: Tier) -> J {
        let mut st = Stats::default();
        let (case, _) = crate::scen_read::generate(seed, run, tier, &mut st);
        let ex = crate::scen_read::execute(&case, &mut st);
        let mut c = case.clone();
        c.script = ex.taken.clone();
        let mut j = c.sample_json();
        j["results"] = json!(ex.results.iter().map(|r| r.short()).collect::<Vec<_>>());
        j
    }
    fn enumerate(&self, tier: Tier, seed: u64, st: &mut Stats) -> Vec<(Violation, J)> {
        // streams longer than the 10 MiB default buffer through DltMessageReader::new
        let n = match tier {
            Tier::Quick => 2,
            Tier::Thorough => 64,
        };
        let (s2, fails) = run_batch(n, |i, st| {
            let case = crate::scen_read::big_stream_case("C07", seed, i, false);
            let ex = crate::scen_read::execute(&case, st);
            st.inc("big_streams_default_ctor");
            st.add("big_stream_bytes", case.medium.len() as u64);
            let k = crate::rng::splitmix64(crate::rng::Fnv::of(&case.medium[..4096.min(case.medium.len())]) ^ i);
            st.distinct.insert(k);
            st.nontrivial.insert(k);
            RunResult { violations: ex.violations, hist: ex.hist }
        });
        st.merge(s2);
        let mut out = vec![];
        for (i, viols) in fails.into_iter().take(2) {
            let case = crate::scen_read::big_stream_case("C07", seed, i, false);
            let mut tmp = Stats::default();
            let ex = crate::scen_read::execute(&case, &mut tmp);
            let mut c = case.clone();
            c.script = ex.taken.clone();
            c.gen = None;
            for v in viols {
                out.push((v, c.to_json()));
            }
        }
        out
    }
    fn evidence(&self, tier: Tier, seed: u64) -> Evidence {
        let mut e = ev_base(
            "C07",
            tier,
            seed,
            "exploration",
            "one run = a seeded medium (0..40 records written by the real writer, then faults from the catalogue, or arbitrary bytes) read to its end by DltMessageReader + read_message through a ScriptedRead whose every read() result (R(k) / Interrupted / hard error / early EOF) is a recorded decision; reader capacities drawn per run. Oracle: Cutter + slice parsing of each piece. distinct = distinct (medium hash, decision-script hash); non-trivial = at least one complete record AND (at least one fragment boundary strictly inside the medium OR at least one fired fault).",
        );
        e.assumptions = vec![
            "sources obey the Read contract (never return more than requested, Ok(0) only at end of file)".into(),
            "nothing is required of the reader after a hard I/O error, a panic, or a record declaring LEN < 4".into(),
            "the expected value of a piece is produced by the real dlt_message on that piece (parser bugs are out of scope here)".into(),
        ];
        e.harness_probes = vec![
            "runs_with_interrupted",
            "runs_with_hard_error",
            "runs_with_early_eof",
            "boundary_in_fixed_header",
            "boundary_inside_LEN",
            "boundary_in_rest",
            "F-LEN<4",
            "F-TRUNC",
            "medium_soup",
            "medium_clean",
            "reader_default_ctor",
            "big_streams_default_ctor",
            "runs_with_tight_message_max_len",
        ];
        e.crate_probes = vec!["term_clean_eos", "term_partial_header", "term_short_record", "term_shortlen", "term_oversize", "results_parse_err"];
        e.step_keys = vec!["source_calls", "reader_calls"];
        e
    }
}

// ------------------------------------------------------------------------------------------ C08
pub struct C08;
impl Scenario for C08 {
    fn prop(&self) -> &'static str {
        "C08"
    }
    fn runs(&self, tier: Tier) -> u64 {
        match tier {
            Tier::Quick => 120_000,
            Tier::Thorough => 3_000_000,
        }
    }
    fn log_runs(&self, tier: Tier) -> u64 {
        match tier {
            Tier::Quick => 12_000,
            Tier::Thorough => 300_000,
        }
    }
    fn one_run(&self, seed: u64, run: u64, tier: Tier, st: &mut Stats) -> (RunResult, Option<J>) {
        let (r, c) = crate::scen_poll::one_run(seed, run, tier, st);
        (r, c.map(|c| c.to_json()))
    }
    fn eval(&self, case: &J) -> Vec<Violation> {
        let c = StreamCase::from_json(case);
        fresh(|| crate::scen_poll::eval(&c))
    }
    fn minimise(&self, case: &J, sig: &str) -> J {
        minimise(&StreamCase::from_json(case), sig, &|c: &StreamCase| fresh(|| crate::scen_poll::eval(c)), 60000).to_json()
    }
    fn case_for_run(&self, seed: u64, run: u64, tier: Tier) -> J {
        crate::scen_poll::generate(seed, run, tier, &mut Stats::default()).to_json()
    }
    fn enumerate_case(&self, _tier: Tier, seed: u64, idx: u64) -> Option<J> {
        Some(crate::scen_read::big_stream_case("C08", seed, idx, true).to_json())
    }
    fn minimise_ext(&self, case: &J, sig: &str, eval: &dyn Fn(&J) -> Vec<Violation>, budget: usize) -> J {
        minimise(&StreamCase::from_json(case), sig, &|c: &StreamCase| eval(&c.to_json()), budget).to_json()
    }
    fn sample(&self, seed: u64, run: u64, tier: Tier) -> J {
        let mut st = Stats::default();
        let case = crate::scen_poll::generate(seed, run, tier, &mut st);
        let ex = crate::scen_poll::execute(&case, &mut st);
        let c = crate::scen_poll::materialise(&case, &ex);
        let mut j = c.sample_json();
        j["executor_choices"] = json!(c.exec.len());
        j
    }
    fn enumerate(&self, tier: Tier, seed: u64, st: &mut Stats) -> Vec<(Violation, J)> {
        // streams longer than the 10 MiB default buffer through DltStreamReader::new
        let n = match tier {
            Tier::Quick => 2,
            Tier::Thorough => 48,
        };
        let (s2, fails) = run_batch(n, |i, st| {
            let case = crate::scen_read::big_stream_case("C08", seed, i, true);
            let ex = crate::scen_poll::execute(&case, st);
            st.inc("big_streams_default_ctor");
            st.add("big_stream_bytes", case.medium.len() as u64);
            st.distinct.insert(ex.key);
            st.nontrivial.insert(ex.key);
            RunResult { violations: ex.violations, hist: ex.hist }
        });
        st.merge(s2);
        let mut out = vec![];
        for (i, viols) in fails.into_iter().take(2) {
            let case = crate::scen_read::big_stream_case("C08", seed, i, true);
            let mut tmp = Stats::default();
            let ex = crate::scen_poll::execute(&case, &mut tmp);
            let c = crate::scen_poll::materialise(&case, &ex);
            for v in viols {
                out.push((v, c.to_json()));
            }
        }
        out
    }
    fn evidence(&self, tier: Tier, seed: u64) -> Evidence {
        let mut e = ev_base(
            "C08",
            tier,
            seed,
            "exploration",
            "one run = 1..4 DltStreamReader tasks on one hand-written executor, each reading a seeded (possibly faulted) medium through a ScriptedPoll whose every poll_read result (Pending bursts with parked wakers, Ready(k), early EOF, rarely a hard error) is a recorded decision; the executor's choices (which woken task to poll, when a parked waker fires, double wakes, spurious polls) are recorded too. Oracle: the blocking reader over the same bytes with an always-ready source. distinct = distinct (media, decision scripts, executor choices) hash; non-trivial = some task has at least one complete record AND (a fragment boundary strictly inside the medium OR at least one Pending).",
        );
        e.assumptions = vec![
            "no cancellation: the API documents itself as not cancel safe, futures are polled to completion".into(),
            "no ErrorKind::Interrupted: C08 quantifies over Pending / Ready(k) only and futures' read_exact does not retry it".into(),
            "the reference is the real blocking reader (C07 decides that one separately)".into(),
        ];
        e.harness_probes = vec!["runs_with_pending", "exec_spurious_polls", "exec_double_wakes", "runs_multi_task", "source_early_eof", "exec_wake_events", "big_streams_default_ctor", "runs_with_tight_message_max_len"];
        e.crate_probes = vec!["records_expected", "term_clean_eos", "term_partial_header", "term_short_record", "term_shortlen", "term_oversize"];
        e.step_keys = vec!["source_calls", "exec_steps"];
        e
    }
}

// ------------------------------------------------------------------------------------------ C10
pub struct C10;
impl Scenario for C10 {
    fn prop(&self) -> &'static str {
        "C10"
    }
    fn runs(&self, tier: Tier) -> u64 {
        match tier {
            Tier::Quick => 400_000,
            Tier::Thorough => 12_000_000,
        }
    }
    fn log_runs(&self, tier: Tier) -> u64 {
        match tier {
            Tier::Quick => 40_000,
            Tier::Thorough => 1_000_000,
        }
    }
    fn one_run(&self, seed: u64, run: u64, tier: Tier, st: &mut Stats) -> (RunResult, Option<J>) {
        let (r, c) = crate::scen_stat::one_run(seed, run, tier, st);
        (r, c.map(|c| c.to_json()))
    }
    fn eval(&self, case: &J) -> Vec<Violation> {
        let c = StreamCase::from_json(case);
        fresh(|| crate::scen_stat::eval(&c))
    }
    fn minimise(&self, case: &J, sig: &str) -> J {
        minimise(&StreamCase::from_json(case), sig, &|c: &StreamCase| fresh(|| crate::scen_stat::eval(c)), 60000).to_json()
    }
    fn case_for_run(&self, seed: u64, run: u64, tier: Tier) -> J {
        crate::scen_stat::generate(seed, run, tier, &mut Stats::default()).to_json()
    }
    fn minimise_ext(&self, case: &J, sig: &str, eval: &dyn Fn(&J) -> Vec<Violation>, budget: usize) -> J {
        minimise(&StreamCase::from_json(case), sig, &|c: &StreamCase| eval(&c.to_json()), budget).to_json()
    }
    fn sample(&self, seed: u64, run: u64, tier: Tier) -> J {
        let mut st = Stats::default();
        let case = crate::scen_stat::generate(seed, run, tier, &mut st);
        let ex = crate::scen_stat::execute(&case, &mut st);
        let mut c = case.clone();
        c.script = ex.taken.clone();
        c.sample_json()
    }
    fn evidence(&self, tier: Tier, seed: u64) -> Evidence {
        let mut e = ev_base(
            "C10",
            tier,
            seed,
            "exploration",
            "one run = a well-formed stream of 0..200 records with colliding ids (optionally truncated) collected (a) by a recording collector and (b) by StatisticInfoCollector, both through a ScriptedRead (fragmentation, Interrupted bursts, early EOF, one hard error); then split at record boundaries into 1..8 parts (empty parts allowed), each part collected separately, 0..2 StatisticInfo::new() identities added, and everything merged along a history drawn from the schedule stream (repeatedly merge one live value into another). Oracle: header decoder + Tally; merged result == whole-stream result as maps. distinct = (medium, decision script, history vector) hash; non-trivial = at least 2 records AND (a fragment boundary inside the medium OR more than one part).",
        );
        e.assumptions = vec![
            "streams are well-formed (C10's quantifier); the only medium fault is truncation, after which only the records wholly before the cut are judged".into(),
            "vector order of the statistics is not part of the property; results are compared as sorted maps".into(),
        ];
        e.fault_kinds = vec!["F-TRUNC"];
        e.harness_probes = vec!["runs_with_interrupted", "runs_with_hard_error", "runs_with_early_eof", "F-TRUNC", "merges", "merge_empty_parts", "merge_identities", "merges_right_into_left_reversed", "wide_streams"];
        e.crate_probes = vec!["bucket_nonlog", "bucket_fatal", "bucket_error", "bucket_warn", "bucket_info", "bucket_debug", "bucket_verbose", "bucket_invalid"];
        e.step_keys = vec!["source_calls", "merges"];
        e
    }
}

// ------------------------------------------------------------------- C03 C04 C05 C06 C16 (S-SLICE)
pub struct Slice(pub Focus);
impl Scenario for Slice {
    fn prop(&self) -> &'static str {
        self.0.id()
    }
    fn runs(&self, tier: Tier) -> u64 {
        let q = match self.0 {
            Focus::C03 => 300_000,
            Focus::C04 => 300_000,
            Focus::C05 => 60_000,
            Focus::C06 => 200_000,
            Focus::C16 => 250_000,
        };
        // thorough: 8 .. 15 minutes each on 16 idle cores (C06 carries the largest media)
        let f = match self.0 {
            Focus::C06 => 25,
            _ => 40,
        };
        match tier {
            Tier::Quick => q,
            Tier::Thorough => q * f,
        }
    }
    fn log_runs(&self, tier: Tier) -> u64 {
        self.runs(tier) / 10
    }
    fn one_run(&self, seed: u64, run: u64, tier: Tier, st: &mut Stats) -> (RunResult, Option<J>) {
        let (r, c) = crate::scen_slice::one_run(self.0, seed, run, tier, st);
        (r, c.map(|c| c.to_json()))
    }
    fn eval(&self, case: &J) -> Vec<Violation> {
        let c = StreamCase::from_json(case);
        let f = crate::scen_slice::eval_for(self.0);
        fresh(|| f(&c))
    }
    fn minimise(&self, case: &J, sig: &str) -> J {
        let f = crate::scen_slice::eval_for(self.0);
        minimise(&StreamCase::from_json(case), sig, &|c: &StreamCase| fresh(|| f(c)), 60000).to_json()
    }
    fn case_for_run(&self, seed: u64, run: u64, tier: Tier) -> J {
        crate::scen_slice::generate(self.0, seed, run, tier, &mut Stats::default()).to_json()
    }
    fn minimise_ext(&self, case: &J, sig: &str, eval: &dyn Fn(&J) -> Vec<Violation>, budget: usize) -> J {
        minimise(&StreamCase::from_json(case), sig, &|c: &StreamCase| eval(&c.to_json()), budget).to_json()
    }
    fn sample(&self, seed: u64, run: u64, tier: Tier) -> J {
        let mut st = Stats::default();
        let case = crate::scen_slice::generate(self.0, seed, run, tier, &mut st);
        let ex = crate::scen_slice::execute(&case, self.0, &mut st);
        let mut c = case.clone();
        c.script = ex.taken.clone();
        let mut j = c.sample_json();
        j["counters_of_this_run"] = json!(st.c.iter().map(|(k, v)| (k.to_string(), *v)).collect::<BTreeMap<String, u64>>());
        j
    }
    fn evidence(&self, tier: Tier, seed: u64) -> Evidence {
        let (level, rule, probes, crate_probes): (&'static str, &str, Vec<&'static str>, Vec<&'static str>) = match self.0 {
            Focus::C03 => (
                "exploration",
                "one run = a seeded medium (records from the real writer and from the foreign-ECU stub, damaged by 0..6 faults of the whole catalogue incl. > 64 KiB tails, or arbitrary bytes) delivered through a ScriptedRead into a streaming slice consumer (dlt_message with and without filter, pattern resync), an indexer (dlt_consume_msg / skip_storage_header + random-access parses), a non-verbose decode stage (construct_arguments with a drawn signal list, dlt_zero_terminated_string over payload windows) and 'use' of every returned message (as_bytes, byte_len, Argument::len/as_bytes/valid, UTF-8 re-check). Every call is wrapped in catch_unwind; overflow checks and debug assertions are on. distinct = (medium, mode, delivery script) hash; non-trivial = at least one message returned AND (a delivery boundary inside the medium OR a fired fault).",
                vec!["mode_any", "mode_payload", "mode_junk", "mode_clean", "mode_soup", "mode_dialect", "mode_amp", "F-TAIL", "F-PFX=FFFF+tail", "F-AMP", "F-ORPHAN", "idle_polls", "nv_construct_calls", "nv_string_calls", "consume_calls", "search_calls", "items_used"],
                vec!["parse_errors", "incomplete", "resyncs", "nv_construct_ok", "nv_construct_err", "filtered_out", "indexed"],
            ),
            Focus::C04 => (
                "exploration",
                "one run = a seeded medium with faults confined to the payload description (NOAR, type-info, 16-bit length prefixes, verbose bit, flips inside payloads; every length field intact) or with header faults (generic clauses only), plus junk in storage mode, consumed twice (without and with a drawn filter) by the streaming slice consumer under a scripted delivery, and walked by the indexer. After every single Ok: rest is a strict suffix, consumed == shift + storage header + LEN read from the bytes, FilteredOut(n) == LEN - headers; end to end: the consumer's verdict offsets equal an independent walk over the declared lengths. distinct = (medium, mode, delivery script) hash; non-trivial = at least one Ok AND (a delivery boundary inside the medium OR a fired fault).",
                vec!["mode_payload", "mode_any", "mode_junk", "alignment_checks", "consume_calls", "walk_records", "F-PFX", "F-NOAR", "F-TI", "F-VERB"],
                vec!["filtered_out", "parse_errors", "incomplete", "indexed"],
            ),
            Focus::C05 => (
                "fault_enumeration",
                "cut mode: one run = one well-formed record (real writer or foreign stub, up to ~64 KiB) and EVERY truncation offset 0..len-1 of it, each judged for dlt_message (no filter, and with the run's filter) and, in storage mode, dlt_consume_msg; evaluations counts the cuts. clean mode: a clean multi-record stream delivered by a scripted source into the streaming consumer, asserting 'incomplete with a safe hint' whenever the buffer head is a proper prefix of the next record. distinct = (record / medium, delivery script) hash; non-trivial = record longer than its fixed header (cut mode) or at least one record returned with a delivery boundary inside the medium (clean mode). Exhaustive per record over cut positions; records themselves are sampled.",
                vec!["mode_cut", "mode_clean", "cut_in_fixed_header", "cut_in_optional_headers", "cut_in_payload", "dynamic_prefix_verdicts", "idle_polls"],
                vec!["incomplete_with_hint", "incomplete_without_hint", "cut_in_storage_header"],
            ),
            Focus::C06 => (
                "exploration",
                "one run = a storage-mode stream with pattern-free junk blocks (0..64 bytes, sometimes 4 KiB; biased to end in D / DL / DLT, to contain DLT\\0 and DDLT) before, between and after records, delivered through a ScriptedRead into the streaming consumer (pattern resync). On every buffer the consumer holds: forward_to_next_storage_header == naive first-match search (offset, remainder pointer); junk ++ m ++ s parses like m ++ s; every record wholly delivered is recovered in order exactly once. distinct = (medium, mode, delivery script) hash; non-trivial = at least one record recovered AND (a delivery boundary inside the medium OR a junk block present).",
                vec!["mode_junk", "F-JUNK", "junk_is_bare_record", "search_calls", "search_calls_big_buffer", "search_skipped_junk", "junk_blocks_judged", "junk_records_expected", "junk_filtered_consumers", "search_partial_pattern_at_end"],
                vec!["resyncs", "junk_run_discarded"],
            ),
            Focus::C16 => (
                "exploration",
                "one run = a seeded faulted medium or a medium of foreign-ECU dialect records; every message the streaming consumer recovers is re-serialised with Message::as_bytes and, when the result has the length its own header declares, parsed back (must be identical, nothing left over) and serialised again (must give the same bytes); all such items are written onto a second medium that a fresh consumer reads back under a different delivery script. distinct = (medium, mode, delivery script) hash; non-trivial = at least one message recovered AND (a delivery boundary inside the medium OR a fired fault OR dialect input).",
                vec!["mode_any", "mode_dialect", "salvage_checks", "salvaged_media", "rec_foreign", "rec_nettrace"],
                vec!["salvage_precondition_fails", "items"],
            ),
        };
        let mut e = ev_base(self.0.id(), tier, seed, level, rule);
        e.assumptions = vec![
            "inputs are valid streams plus injected faults (and a share of arbitrary bytes): deep states are reached cheaply, byte-soup states rarely; this is sampling, not a proof of panic-freedom".into(),
            "expected values come from the bytes (header decoder, naive search, declared lengths) or from a second run of the real parser on a property-equivalent input, never from the producer's in-memory Message".into(),
        ];
        e.harness_probes = probes;
        e.crate_probes = crate_probes;
        e.step_keys = vec!["source_calls", "parse_calls", "consume_calls", "search_calls"];
        e
    }
}

// ------------------------------------------------------------------------------------------ C12
pub struct C12;
impl Scenario for C12 {
    fn prop(&self) -> &'static str {
        "C12"
    }
    fn runs(&self, tier: Tier) -> u64 {
        match tier {
            Tier::Quick => 100_000,
            Tier::Thorough => 4_000_000,
        }
    }
    fn log_runs(&self, tier: Tier) -> u64 {
        match tier {
            Tier::Quick => 12_000,
            Tier::Thorough => 300_000,
        }
    }
    fn one_run(&self, seed: u64, run: u64, tier: Tier, st: &mut Stats) -> (RunResult, Option<J>) {
        let (r, c) = crate::scen_fibex::one_run(seed, run, tier, st);
        (r, c.map(|c| c.to_json()))
    }
    fn eval(&self, case: &J) -> Vec<Violation> {
        let c = crate::scen_fibex::FibexCase::from_json(case);
        fresh(|| crate::scen_fibex::eval(&c))
    }
    fn minimise(&self, case: &J, sig: &str) -> J {
        crate::scen_fibex::minimise_with(&crate::scen_fibex::FibexCase::from_json(case), sig, &|c: &crate::scen_fibex::FibexCase| fresh(|| crate::scen_fibex::eval(c)), 4000).to_json()
    }
    fn case_for_run(&self, seed: u64, run: u64, tier: Tier) -> J {
        crate::scen_fibex::generate(seed, run, tier, &mut Stats::default()).to_json()
    }
    fn enumerate_case(&self, tier: Tier, seed: u64, idx: u64) -> Option<J> {
        crate::scen_fibex::enumerated_case(tier, seed, idx).map(|c| c.to_json())
    }
    fn minimise_ext(&self, case: &J, sig: &str, eval: &dyn Fn(&J) -> Vec<Violation>, budget: usize) -> J {
        crate::scen_fibex::minimise_with(&crate::scen_fibex::FibexCase::from_json(case), sig, &|c: &crate::scen_fibex::FibexCase| eval(&c.to_json()), budget).to_json()
    }
    fn sample(&self, seed: u64, run: u64, tier: Tier) -> J {
        let mut st = Stats::default();
        let case = crate::scen_fibex::generate(seed, run, tier, &mut st);
        let ex = crate::scen_fibex::execute(&case, &mut st);
        let mut j = case.sample_json();
        j["answer"] = json!(if ex.model { "model" } else { "refusal" });
        j["xml_reader_steps"] = json!(ex.steps);
        j
    }
    fn enumerate(&self, tier: Tier, seed: u64, st: &mut Stats) -> Vec<(Violation, J)> {
        crate::scen_fibex::enumerate_cuts(tier, seed, st).into_iter().map(|(v, c)| (v, c.to_json())).collect()
    }
    fn evidence(&self, tier: Tier, seed: u64) -> Evidence {
        let mut e = ev_base(
            "C12",
            tier,
            seed,
            "fault_enumeration",
            "enumeration: EVERY truncation offset 0..=len of the two documents shipped in /repo/tests and of a set of generated documents (<= 16 KiB each) is written to a private directory and loaded with gather_fibex_data (exhaustive per document over cut positions). Seeded runs: shipped or generated documents (namespaced like the samples, 0..30 PDUs, frames with manufacturer extensions, signals, codings, comments, CDATA, entity references, BOM, DOCTYPE, shuffled sections, 1..3 files) damaged by 1..5 faults (truncation, bit flips, byte overwrites, dropped / duplicated blocks, structure-aware deletions of end tags / attributes / BYTE-LENGTH / SEQUENCE-NUMBER / quotes, non-numeric numbers, UTF-16 re-encoding) or by a file-level fault (missing path, empty path list, empty path string, directory, empty file, symlink loop, one file of a set missing). Oracle: returns Some or None, no panic, XML-reader step budget 2*bytes+64 not exhausted. distinct = hash of the file set; non-trivial = at least one fault applied to a document of more than 64 bytes (seeded runs) / cut beyond byte 64 (enumeration).",
        );
        e.assumptions = vec![
            "faults reach this API only as file content at rest: read-level faults (EIO mid-file, short reads) cannot be injected because read_pdu/read_frame are typed to BufReader<File>".into(),
            "termination is judged in steps of the XML reader (hook verif_hooks) and, outside it, by the CPU-time budget of the supervisor (60 s of the loading thread); wall-clock time decides nothing".into(),
            "which of the two answers (model / refusal) a damaged file gets is not judged, only counted".into(),
        ];
        e.fault_kinds = vec!["F-TRUNC", "F-FLIP", "F-BYTE", "F-DROP", "F-DUP", "F-NUM", "F-STRUCT", "F-REF", "F-NEST", "F-DEEP", "F-FILE", "F-UTF16"];
        e.harness_probes = vec!["enumerated_cuts", "enumerated_documents", "doc_shipped", "doc_generated", "F-TRUNC", "F-STRUCT", "F-STRUCT+cut", "F-REF", "F-NEST", "F-DEEP", "F-FILE", "F-NUM", "load_clean"];
        e.crate_probes = vec!["answer_model", "answer_refusal"];
        e.step_keys = vec!["xml_steps"];
        e.exhaustive = false;
        e
    }
}

pub fn all() -> Vec<Box<dyn Scenario>> {
    vec![
        Box::new(Slice(Focus::C03)),
        Box::new(Slice(Focus::C04)),
        Box::new(Slice(Focus::C05)),
        Box::new(Slice(Focus::C06)),
        Box::new(C07),
        Box::new(C08),
        Box::new(C10),
        Box::new(C12),
        Box::new(Slice(Focus::C16)),
    ]
}

/// `dltsim selftest determinism`: every scenario, a sample of runs executed twice; history hashes
/// must agree. (Across processes and worker counts: see check.sh selftest.)
pub fn selftest(what: &str, scenarios: &[&dyn Scenario]) -> i32 {
    match what {
        "determinism" => {
            let seed = crate::driver::seed_from_env();
            let n = crate::driver::runs_override(2000);
            let mut bad = 0;
            for sc in scenarios {
                let (st, _) = run_batch(n, |run, st| {
                    let a = sc.one_run(seed, run, Tier::Quick, st).0;
                    let mut tmp = Stats::default();
                    let b = sc.one_run(seed, run, Tier::Quick, &mut tmp).0;
                    if a.hist != b.hist {
                        st.inc("nondeterministic_runs");
                    }
                    a
                });
                println!("DETERMINISM {} runs={} digest={:016x} nondeterministic={}", sc.prop(), n, st.hist, st.get("nondeterministic_runs"));
                bad += st.get("nondeterministic_runs");
            }
            if bad > 0 {
                2
            } else {
                0
            }
        }
        _ => {
            println!("usage: dltsim selftest determinism");
            2
        }
    }
}
