//! Registration of the per-property scenarios with the driver.

use crate::case::StreamCase;
use crate::core::*;
use crate::driver::Scenario;
use crate::faults::FAULT_KEYS;
use crate::scen_common::minimise;
use serde_json::{json, Value as J};
use std::collections::BTreeMap;

fn ev_base(prop: &'static str, tier: Tier, seed: u64, level: &'static str, rule: &str) -> Evidence {
    Evidence {
        prop,
        tier,
        seed,
        level,
        rule: rule.to_string(),
        samples: vec![],
        assumptions: vec![],
        real_vs_stub: real_vs_stub_default(),
        extra: BTreeMap::new(),
        fault_kinds: FAULT_KEYS.to_vec(),
        harness_probes: vec![],
        crate_probes: vec![],
        step_keys: vec![],
        exhaustive: false,
    }
}

// ------------------------------------------------------------------------------------------ C07
pub struct C07;
impl Scenario for C07 {
    fn prop(&self) -> &'static str {
        "C07"
    }
    fn runs(&self, tier: Tier) -> u64 {
        match tier {
            Tier::Quick => 350_000,
            Tier::Thorough => 40_000_000,
        }
    }
    fn log_runs(&self, tier: Tier) -> u64 {
        match tier {
            Tier::Quick => 50_000,
            Tier::Thorough => 2_000_000,
        }
    }
    fn one_run(&self, seed: u64, run: u64, tier: Tier, st: &mut Stats) -> (RunResult, Option<J>) {
        let (r, c) = crate::scen_read::one_run(seed, run, tier, st);
        (r, c.map(|c| c.to_json()))
    }
    fn eval(&self, case: &J) -> Vec<Violation> {
        crate::scen_read::eval(&StreamCase::from_json(case))
    }
    fn minimise(&self, case: &J, sig: &str) -> J {
        minimise(&StreamCase::from_json(case), sig, &crate::scen_read::eval, 60000).to_json()
    }
    fn sample(&self, seed: u64, run: u64, tier: Tier) -> J {
        let mut st = Stats::default();
        let (case, _) = crate::scen_read::generate(seed, run, tier, &mut st);
        let ex = crate::scen_read::execute(&case, &mut st);
        let mut c = case.clone();
        c.script = ex.taken.clone();
        let mut j = c.sample_json();
        j["results"] = json!(ex.results.iter().map(|r| r.short()).collect::<Vec<_>>());
        j
    }
    fn evidence(&self, tier: Tier, seed: u64) -> Evidence {
        let mut e = ev_base(
            "C07",
            tier,
            seed,
            "exploration",
            "one run = a seeded medium (0..40 records written by the real writer, then faults from the catalogue, or arbitrary bytes) read to its end by DltMessageReader + read_message through a ScriptedRead whose every read() result (R(k) / Interrupted / hard error / early EOF) is a recorded decision; reader capacities drawn per run. Oracle: Cutter + slice parsing of each piece. distinct = distinct (medium hash, decision-script hash); non-trivial = at least one complete record AND (at least one fragment boundary strictly inside the medium OR at least one fired fault).",
        );
        e.assumptions = vec![
            "sources obey the Read contract (never return more than requested, Ok(0) only at end of file)".into(),
            "nothing is required of the reader after a hard I/O error, a panic, or a record declaring LEN < 4".into(),
            "the expected value of a piece is produced by the real dlt_message on that piece (parser bugs are out of scope here)".into(),
        ];
        e.harness_probes = vec![
            "runs_with_interrupted",
            "runs_with_hard_error",
            "runs_with_early_eof",
            "boundary_in_fixed_header",
            "boundary_inside_LEN",
            "boundary_in_rest",
            "F-LEN<4",
            "F-TRUNC",
            "medium_soup",
            "medium_clean",
            "reader_default_ctor",
        ];
        e.crate_probes = vec!["term_clean_eos", "term_partial_header", "term_short_record", "term_shortlen", "results_parse_err"];
        e.step_keys = vec!["source_calls", "reader_calls"];
        e
    }
}

pub fn all() -> Vec<Box<dyn Scenario>> {
    vec![Box::new(C07)]
}

/// `dltsim selftest determinism`: every scenario, a sample of runs executed twice; history hashes
/// must agree. (Across processes and worker counts: see check.sh selftest.)
pub fn selftest(what: &str, scenarios: &[&dyn Scenario]) -> i32 {
    match what {
        "determinism" => {
            let seed = crate::driver::seed_from_env();
            let n = crate::driver::runs_override(2000);
            let mut bad = 0;
            for sc in scenarios {
                let (st, _) = run_batch(n, |run, st| {
                    let a = sc.one_run(seed, run, Tier::Quick, st).0;
                    let mut tmp = Stats::default();
                    let b = sc.one_run(seed, run, Tier::Quick, &mut tmp).0;
                    if a.hist != b.hist {
                        st.inc("nondeterministic_runs");
                    }
                    a
                });
                println!("DETERMINISM {} runs={} digest={:016x} nondeterministic={}", sc.prop(), n, st.hist, st.get("nondeterministic_runs"));
                bad += st.get("nondeterministic_runs");
            }
            if bad > 0 {
                2
            } else {
                0
            }
        }
        _ => {
            println!("usage: dltsim selftest determinism");
            2
        }
    }
}
