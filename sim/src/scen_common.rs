//! Helpers shared by the stream scenarios: building a faulted medium from the seeded producer,
//! drawing reader knobs, and the generic minimiser over `StreamCase`.

use crate::case::{FilterSpec, StreamCase};
use crate::core::{Stats, Violation};
use crate::faults::{build_medium, Confine, FaultPlan, Medium};
use crate::gen::{gen_foreign_record, gen_record, Rec, Swarm};
use crate::model::max_declared;
use crate::rng::Rng;
use crate::source::Dec;

pub struct Built {
    pub medium: Medium,
    pub storage: bool,
    pub swarm: Swarm,
    pub clean_records: Vec<Rec>,
}

pub struct BuildOpts {
    pub max_records: usize,
    pub confine: Confine,
    /// percent of runs without any fault
    pub clean_pct: usize,
    /// percent of records coming from the foreign-dialect stub
    pub foreign_pct: usize,
    pub storage: Option<bool>,
    pub stats_swarm: bool,
    /// allow a share of runs to be plain arbitrary bytes
    pub soup_pct: usize,
    /// "wide" statistics workload: this many tiny records at least, ids from a large alphabet, so
    /// that hundreds of distinct ids meet in one collector and in one merge (0 = off)
    pub wide_records: usize,
}

pub fn build(rw: &mut Rng, rf: &mut Rng, o: &BuildOpts, st: &mut Stats) -> Built {
    let storage = o.storage.unwrap_or_else(|| rw.bool());
    let mut swarm = if o.stats_swarm { Swarm::for_stats(rw, storage) } else { Swarm::draw(rw, storage) };
    if o.wide_records > 0 {
        swarm.id_alphabet = 64;
        swarm.size_w = [1, 0, 0, 0];
        swarm.max_args = 1;
        swarm.vari_pct = 0;
    }
    let n = match rw.below(10) {
        0 => 0,
        1 => 1,
        2 | 3 => 2,
        4 | 5 => 1 + rw.below(5),
        _ => rw.below(o.max_records + 1),
    }
    .min(o.max_records);
    let n = if o.wide_records > 0 { o.wide_records + rw.below(o.wide_records) } else { n };
    let mut recs: Vec<Rec> = (0..n)
        .map(|_| {
            if o.foreign_pct > 0 && rw.chance(o.foreign_pct, 100) {
                gen_foreign_record(rw, storage)
            } else {
                gen_record(rw, &swarm)
            }
        })
        .collect();
    let clean_records = recs.clone();
    for rec in &recs {
        st.inc(match rec.kind {
            "verbose" => "rec_verbose",
            "nonverbose" => "rec_nonverbose",
            "nonverbose_noext" => "rec_nonverbose_noext",
            "control" => "rec_control",
            "nettrace" => "rec_nettrace",
            "foreign" => "rec_foreign",
            _ => "rec_other",
        });
    }
    if o.soup_pct > 0 && rf.chance(o.soup_pct, 100) {
        // plain arbitrary bytes: the shallow end
        let n = match rf.below(4) {
            0 => rf.below(8),
            1 => rf.below(64),
            _ => rf.below(600),
        };
        let mut bytes = rf.bytes(n);
        if storage && n >= 4 && rf.bool() {
            bytes[..4].copy_from_slice(b"DLT\x01");
        } else if rf.chance(1, 6) {
            // starts with a byte-string literal of the crate's source
            let lit = crate::dict::blob(rf);
            let k = lit.len().min(n);
            bytes[..k].copy_from_slice(&lit[..k]);
        }
        st.inc("medium_soup");
        let m = Medium { bytes, aligned: false, notes: vec!["arbitrary bytes".into()], ..Default::default() };
        return Built { medium: m, storage, swarm, clean_records: vec![] };
    }
    let plan = if rf.chance(o.clean_pct, 100) { FaultPlan::none() } else { FaultPlan::draw(rf, o.confine, storage) };
    if plan.count == 0 && !plan.pfx_tail_pair {
        st.inc("medium_clean");
    } else {
        st.inc("medium_faulted");
    }
    let medium = build_medium(&mut recs, rf, &plan, st);
    Built { medium, storage, swarm, clean_records }
}

/// A reader whose `message_max_len` is *smaller* than a length the stream declares: the stream
/// breaks the promise the reader was configured with (hostile or corrupted LEN, or a deployment
/// that sized the buffer for its own ECU's messages). Returns None when no record is larger than
/// the fixed header.
pub fn draw_tight_capacities(r: &mut Rng, medium: &[u8], storage: bool) -> Option<(usize, usize)> {
    let hl = if storage { 20 } else { 4 };
    let need = max_declared(medium, storage);
    if need <= hl {
        return None;
    }
    let msg_max = match r.below(4) {
        0 => need - 1,
        1 => hl,
        2 => hl + r.below(need - hl),
        _ => (need / 2).max(hl),
    };
    let buf_cap = msg_max + *r.pick(&[0usize, 0, 1, 16, 4096]);
    Some((buf_cap, msg_max))
}

/// Reader knobs per run: capacities as small as the constructor's precondition allows, so that
/// the BufReader refills inside records; sometimes the default constructor.
pub fn draw_capacities(r: &mut Rng, medium: &[u8], storage: bool, default_pct: usize) -> (usize, usize) {
    if r.chance(default_pct, 100) {
        return (0, 0);
    }
    let need = max_declared(medium, storage);
    let mut msg_max = need + *r.pick(&[0usize, 0, 0, 1, 7, 100, 5000]);
    let mut buf_cap = msg_max + *r.pick(&[0usize, 0, 0, 1, 16, 4096]);
    // capacities that are literals of the crate's source (or next to one), when they are legal
    if r.chance(1, 10) {
        if let Some(n) = crate::dict::num_below(r, 200_000) {
            if n as usize >= need {
                msg_max = n as usize;
                buf_cap = buf_cap.max(msg_max);
            }
        }
    }
    if r.chance(1, 10) {
        if let Some(n) = crate::dict::num_below(r, 400_000) {
            if n as usize >= msg_max {
                buf_cap = n as usize;
            }
        }
    }
    (buf_cap, msg_max)
}

/// One reader call through either of the two public entry points: `read_message`, or
/// `next_message_slice` followed by the caller's own `dlt_message` on the slice. Which one is a
/// function of the call index and the medium (replayable); a reader that keeps something between
/// calls behaves differently when the two are mixed.
pub fn via_slice(call: usize, medium_len: usize) -> bool {
    (call + medium_len) % 3 == 0
}
pub fn reader_call<S: std::io::Read>(
    reader: &mut dlt_core::read::DltMessageReader<S>,
    filter: Option<&dlt_core::filtering::ProcessedDltFilterConfig>,
    slice_api: bool,
) -> Result<Option<dlt_core::parse::ParsedMessage>, dlt_core::parse::DltParseError> {
    if !slice_api {
        return dlt_core::read::read_message(reader, filter);
    }
    let sh = reader.with_storage_header();
    let slice = reader.next_message_slice()?;
    if slice.is_empty() {
        Ok(None)
    } else {
        Ok(Some(dlt_core::parse::dlt_message(slice, filter, sh)?.1))
    }
}

pub fn draw_filter(r: &mut Rng, alphabet: usize, pct: usize) -> Option<FilterSpec> {
    if r.chance(pct, 100) {
        Some(FilterSpec::draw(r, alphabet))
    } else {
        None
    }
}

// ---------------------------------------------------------------------------------------------
// Minimisation: delta debugging over a StreamCase while the same violation signature persists.
// ---------------------------------------------------------------------------------------------

fn ddmin_vec<T: Clone>(v: &[T], mut test: impl FnMut(&[T]) -> bool, budget: &mut usize) -> Vec<T> {
    let mut cur = v.to_vec();
    let mut chunk = (cur.len() / 2).max(1);
    loop {
        if *budget == 0 || cur.is_empty() {
            break;
        }
        let mut i = 0;
        let mut progress = false;
        while i < cur.len() && *budget > 0 {
            let end = (i + chunk).min(cur.len());
            let mut cand = cur[..i].to_vec();
            cand.extend_from_slice(&cur[end..]);
            *budget -= 1;
            if test(&cand) {
                cur = cand;
                progress = true;
            } else {
                i = end;
            }
        }
        if chunk == 1 {
            if !progress {
                break;
            }
        } else {
            chunk /= 2;
        }
    }
    cur
}

/// Shrink `case` while `eval` keeps reporting a violation with signature `sig`.
/// `eval` must be deterministic and must treat an exhausted script as "deliver in full".
pub fn minimise(
    case: &StreamCase,
    sig: &str,
    eval: &dyn Fn(&StreamCase) -> Vec<Violation>,
    byte_budget: usize,
) -> StreamCase {
    let fails = |c: &StreamCase| eval(c).iter().any(|v| v.sig == sig);
    let mut cur = case.clone();
    cur.gen = None;
    if !fails(&cur) {
        return cur;
    }
    // budget counted in evaluations, scaled by the size of the case (no wall clock involved)
    let size = case.medium.len() + case.script.len() + case.exec.len() + case.tasks.iter().map(|t| t.0.len() + t.1.len()).sum::<usize>();
    // (a budget below 200 is taken literally: evaluations in subprocesses are expensive)
    let mut budget = if byte_budget < 200 { byte_budget } else { byte_budget.min(40_000_000 / (size + 1)).max(200) };
    // 1. simplest schedule first: no script at all (= full reads), then fewer entries
    let mut c = cur.clone();
    c.script.clear();
    c.exec.clear();
    if fails(&c) {
        cur = c;
    }
    // 2. drop co-tasks, filter, custom capacities
    if !cur.tasks.is_empty() {
        let mut c = cur.clone();
        c.tasks.clear();
        if fails(&c) {
            cur = c;
        }
    }
    if cur.filter.is_some() {
        let mut c = cur.clone();
        c.filter = None;
        if fails(&c) {
            cur = c;
        }
    }
    // 3. shrink the medium (capacities follow the medium so the reader precondition holds)
    for _round in 0..4 {
        let before = (cur.medium.len(), cur.script.len(), cur.exec.len());
        let base = cur.clone();
        let med = ddmin_vec(
            &base.medium,
            |cand| {
                let mut c = base.clone();
                c.medium = cand.to_vec();
                fix_caps(&mut c);
                fails(&c)
            },
            &mut budget,
        );
        cur.medium = med;
        fix_caps(&mut cur);
        // canonicalise surviving bytes towards zero where the failure does not care
        if cur.medium.len() <= 512 {
            for i in 0..cur.medium.len() {
                if cur.medium[i] != 0 && budget > 0 {
                    let mut c = cur.clone();
                    c.medium[i] = 0;
                    budget -= 1;
                    if fails(&c) {
                        cur = c;
                    }
                }
            }
        }
        if !cur.medium2.is_empty() {
            let base = cur.clone();
            let med2 = ddmin_vec(
                &base.medium2,
                |cand| {
                    let mut c = base.clone();
                    c.medium2 = cand.to_vec();
                    fails(&c)
                },
                &mut budget,
            );
            cur.medium2 = med2;
        }
        // 4. shrink the script: drop entries, then turn entries into plain full reads
        if !cur.script.is_empty() {
            let base = cur.clone();
            let s = ddmin_vec(
                &base.script,
                |cand| {
                    let mut c = base.clone();
                    c.script = cand.to_vec();
                    fails(&c)
                },
                &mut budget,
            );
            cur.script = s;
            for i in 0..cur.script.len() {
                if budget == 0 {
                    break;
                }
                if cur.script[i] != Dec::R(u32::MAX) {
                    let mut c = cur.clone();
                    c.script[i] = Dec::R(u32::MAX);
                    budget -= 1;
                    if fails(&c) {
                        cur = c;
                    }
                }
            }
            // trailing full reads are the default
            while cur.script.last() == Some(&Dec::R(u32::MAX)) {
                cur.script.pop();
            }
        }
        if !cur.exec.is_empty() {
            let base = cur.clone();
            let e = ddmin_vec(
                &base.exec,
                |cand| {
                    let mut c = base.clone();
                    c.exec = cand.to_vec();
                    fails(&c)
                },
                &mut budget,
            );
            cur.exec = e;
        }
        if !cur.aux.is_empty() && cur.mode != "cut" {
            let base = cur.clone();
            let a = ddmin_vec(
                &base.aux,
                |cand| {
                    let mut c = base.clone();
                    c.aux = cand.to_vec();
                    fails(&c)
                },
                &mut budget,
            );
            cur.aux = a;
        }
        if budget == 0 || before == (cur.medium.len(), cur.script.len(), cur.exec.len()) {
            break;
        }
    }
    cur.notes.push(format!("minimised from {} medium bytes / {} decisions", case.medium.len(), case.script.len()));
    cur
}

/// keep explicit capacities legal for the (shrunk) medium
pub fn fix_caps(c: &mut StreamCase) {
    if c.tight_max {
        let hl = if c.storage { 20 } else { 4 };
        c.msg_max = c.msg_max.max(hl);
        c.buf_cap = c.buf_cap.max(c.msg_max);
        return;
    }
    if c.buf_cap != 0 || c.msg_max != 0 {
        let need = max_declared(&c.medium, c.storage);
        let mut extra = 0;
        for (m, _) in &c.tasks {
            extra = extra.max(max_declared(m, c.storage));
        }
        let need = need.max(extra);
        if c.msg_max < need {
            c.msg_max = need;
        }
        // prefer the tightest legal configuration
        if c.msg_max > need + 5000 {
            c.msg_max = need;
        }
        if c.buf_cap < c.msg_max {
            c.buf_cap = c.msg_max;
        }
    }
}

// ---------------------------------------------------------------------------------------------
// The harness's calling discipline, shared by the blocking and the async scenario: keep calling
// `read_message` until the Cutter (on the full medium) says the stream is over, then twice more.
// ---------------------------------------------------------------------------------------------

pub struct CallPlan<'d> {
    data: &'d [u8],
    storage: bool,
    pos: usize,
    extra_left: u32,
    in_extra: bool,
    pub terminal_calls: usize,
    pub calls: usize,
    max_main: usize,
    limit: usize,
    /// transient ends of file (see source::Core::teof) not yet met
    stops: Vec<usize>,
}

#[derive(PartialEq, Debug)]
pub enum Next {
    Again,
    Stop,
}

impl<'d> CallPlan<'d> {
    pub fn new(data: &'d [u8], storage: bool) -> Self {
        Self::new_lim(data, storage, 0)
    }
    /// `limit`: the reader's configured `message_max_len` (0 = none)
    pub fn new_lim(data: &'d [u8], storage: bool, limit: usize) -> Self {
        let (p, _) = crate::model::cut_all_lim(data, storage, limit);
        CallPlan { data, storage, pos: 0, extra_left: 2, in_extra: false, terminal_calls: 0, calls: 0, max_main: p.len() + 1, limit, stops: vec![] }
    }
    pub fn with_stops(mut self, stops: &[usize]) -> Self {
        self.stops = stops.to_vec();
        self.max_main += stops.len();
        self
    }
    /// `failed`: the source has returned a hard error
    pub fn after(&mut self, res: &crate::model::Res, failed: bool) -> Next {
        use crate::model::{cut_at_lim, Cut, Res};
        self.calls += 1;
        if res.is_panic() || failed {
            if !self.in_extra {
                self.terminal_calls = self.calls;
            }
            return Next::Stop;
        }
        if self.in_extra {
            self.extra_left -= 1;
            return if self.extra_left == 0 { Next::Stop } else { Next::Again };
        }
        // a reader that answers "no more message" at a transient end of file is simply called again
        if *res == Res::None {
            if let Some(i) = self.stops.iter().position(|s| *s == self.pos) {
                self.stops.remove(i);
                return if self.calls >= self.max_main + 4 { Next::Stop } else { Next::Again };
            }
        }
        let terminal = match cut_at_lim(self.data, self.pos, self.storage, self.limit) {
            Cut::Piece(n) => {
                self.pos += n;
                *res == Res::None || self.calls >= self.max_main
            }
            Cut::ShortLen(_) | Cut::Oversize(_) => {
                self.terminal_calls = self.calls;
                return Next::Stop;
            }
            _ => true,
        };
        if terminal {
            self.terminal_calls = self.calls;
            self.in_extra = true;
        }
        Next::Again
    }
}
