//! Producer: seeded workload of well-formed DLT messages, serialised with the crate's own writer
//! (`Message::as_bytes`, real code), plus a region map of every byte it wrote; and an independent
//! "foreign ECU" stub producer that writes the dialect the crate's writer never emits.

use crate::rng::Rng;
use dlt_core::dlt::*;

#[derive(Clone, Copy, Debug, PartialEq, Eq, Hash, PartialOrd, Ord)]
#[repr(u8)]
pub enum Region {
    StPat = 0,
    StTime,
    StEcu,
    Htyp,
    Mcnt,
    Len0,
    Len1,
    Ecu,
    Seid,
    Tmsp,
    Msin,
    Noar,
    Apid,
    Ctid,
    TypeInfo,
    LenPrefix,
    NameUnit,
    FixedPt,
    Value,
    RawPayload,
    Junk,
}
pub const REGION_COUNT: usize = 21;
pub const REGION_NAMES: [&str; REGION_COUNT] = [
    "storage_pattern",
    "storage_time",
    "storage_ecu",
    "HTYP",
    "MCNT",
    "LEN0",
    "LEN1",
    "ECU",
    "SEID",
    "TMSP",
    "MSIN",
    "NOAR",
    "APID",
    "CTID",
    "type_info",
    "length_prefix",
    "name_unit",
    "fixed_point",
    "value",
    "raw_payload",
    "junk",
];

#[derive(Clone, Debug)]
pub struct Reg {
    pub start: usize,
    pub end: usize,
    pub kind: Region,
}

/// One serialised record and the map of its bytes (offsets relative to the record start).
#[derive(Clone, Debug)]
pub struct Rec {
    pub bytes: Vec<u8>,
    pub regs: Vec<Reg>,
    pub kind: &'static str,
    /// true when produced by the foreign-dialect stub (not by Message::as_bytes)
    pub foreign: bool,
}

impl Rec {
    pub fn region_at(&self, off: usize) -> Region {
        for r in &self.regs {
            if off >= r.start && off < r.end {
                return r.kind;
            }
        }
        Region::RawPayload
    }
    pub fn regs_of(&self, k: Region) -> Vec<&Reg> {
        self.regs.iter().filter(|r| r.kind == k).collect()
    }
    pub fn payload_start(&self) -> usize {
        // first region that belongs to the payload
        self.regs
            .iter()
            .filter(|r| {
                matches!(
                    r.kind,
                    Region::TypeInfo
                        | Region::LenPrefix
                        | Region::NameUnit
                        | Region::FixedPt
                        | Region::Value
                        | Region::RawPayload
                )
            })
            .map(|r| r.start)
            .min()
            .unwrap_or(self.bytes.len())
    }
}

/// Swarm configuration: which parts of the input space this run visits, and how often.
#[derive(Clone, Debug)]
pub struct Swarm {
    pub storage: bool,
    /// weights: verbose, non-verbose (ext hdr), non-verbose (no ext hdr), control, network trace
    pub kind_w: [u32; 5],
    /// weights for size classes: tiny, small, medium, large
    pub size_w: [u32; 4],
    pub big_endian_pct: usize,
    pub opt_field_pct: [usize; 3],
    pub id_alphabet: usize,
    pub max_args: usize,
    pub vari_pct: usize,
    pub multibyte_pct: usize,
    pub odd_msgtype_pct: usize,
    /// share of byte / text payload fields that get the storage-header magic "DLT\x01" embedded
    /// (legal content: a DLT stream logged inside a DLT stream, or plain chance)
    pub embed_magic_pct: usize,
    /// a logger without a (fine) clock: every storage header of the run carries the same
    /// timestamp and ECU id, so that consecutive records start with 16 identical bytes
    pub fixed_storage_header: Option<(u32, u32, String)>,
    /// message counter of consecutive records: 0 random, 1 incrementing (with wrap-around),
    /// 2 constant
    pub counter_mode: u8,
    /// header timestamp of consecutive records: 0 random, 1 non-decreasing in small steps (equal
    /// neighbours included), 2 constant, 3 decreasing
    pub time_mode: u8,
    /// share of records that repeat the previous record byte for byte
    pub dup_pct: usize,
    /// application ids in ascending order over the run
    pub sorted_ids: bool,
    /// one session id for every record of the run (one process logging)
    pub session_const: Option<u32>,
    /// percent of numeric / textual draws taken from the source dictionary (dict.rs)
    pub dict_pct: usize,
    pub seq: std::rc::Rc<SeqState>,
}

/// what a record depends on from the records before it (sequence modes)
#[derive(Debug, Default)]
pub struct SeqState {
    pub counter: std::cell::Cell<u8>,
    pub ts: std::cell::Cell<u32>,
    pub id: std::cell::Cell<u32>,
    pub last: std::cell::RefCell<Option<Rec>>,
    pub last_msg: std::cell::RefCell<Option<(Message, &'static str)>>,
}

impl Swarm {
    pub fn draw(r: &mut Rng, storage: bool) -> Swarm {
        let mut kind_w = [0u32; 5];
        for w in kind_w.iter_mut() {
            *w = if r.chance(3, 4) { 1 + r.below(8) as u32 } else { 0 };
        }
        if kind_w.iter().all(|w| *w == 0) {
            kind_w[r.below(5)] = 1;
        }
        let size_w = match r.below(7) {
            6 => [2, 3, 2, 2],
            0 => [8, 1, 0, 0],
            1 => [4, 4, 1, 0],
            2 => [2, 4, 2, 0],
            3 => [4, 4, 1, 1],
            4 => [1, 1, 1, 0],
            _ => [6, 3, 1, 0],
        };
        Swarm {
            storage,
            kind_w,
            size_w,
            big_endian_pct: *r.pick(&[0, 20, 50, 50, 80, 100]),
            opt_field_pct: [
                *r.pick(&[0, 50, 100]),
                *r.pick(&[0, 50, 100]),
                *r.pick(&[0, 50, 100]),
            ],
            id_alphabet: *r.pick(&[1, 2, 4, 16]),
            max_args: *r.pick(&[1, 2, 4, 8, 16]),
            vari_pct: *r.pick(&[0, 20, 50, 100]),
            multibyte_pct: *r.pick(&[0, 10, 50]),
            odd_msgtype_pct: *r.pick(&[0, 10, 40]),
            embed_magic_pct: *r.pick(&[0, 0, 0, 5, 30, 100]),
            counter_mode: *r.pick(&[0u8, 0, 1, 1, 2]),
            time_mode: *r.pick(&[0u8, 0, 0, 1, 1, 2, 3]),
            dup_pct: *r.pick(&[0usize, 0, 0, 5, 30]),
            sorted_ids: r.chance(1, 6),
            session_const: if r.chance(1, 3) { Some(*r.pick(&[0u32, 1, 0xffff_ffff, 4711, 0x1234_5678])) } else { None },
            dict_pct: *r.pick(&[0usize, 5, 5, 15, 40]),
            seq: {
                let s = SeqState::default();
                s.counter.set(*r.pick(&[0u8, 1, 250, 253, 255, 128]));
                s.ts.set(*r.pick(&[0u32, 1, 0xffff_fff0, 0x7fff_fffe, 1_000_000]));
                std::rc::Rc::new(s)
            },
            fixed_storage_header: if r.chance(1, 4) {
                let secs = *r.pick(&[0u32, 0, 1, 0xffff_ffff, 1_700_000_000]);
                Some((secs, *r.pick(&[0u32, 0, 999_999, 500_000]), if r.bool() { "ECU".to_string() } else { gen_id(r, 4) }))
            } else {
                None
            },
        }
    }
    /// a narrow swarm for statistics: small id alphabets so that ids collide
    pub fn for_stats(r: &mut Rng, storage: bool) -> Swarm {
        let mut s = Swarm::draw(r, storage);
        s.size_w = [8, 2, 0, 0];
        s.id_alphabet = *r.pick(&[1, 2, 3, 4]);
        s.max_args = 3;
        s.odd_msgtype_pct = *r.pick(&[10, 30, 60]);
        s
    }
}

const ID_CHARS: &[u8] = b"ABCDEFGHIJKLMNOPQRSTUVWXYZabcdefghijklmnopqrstuvwxyz0123456789_- ";

/// ids that collide with words the crate itself uses as defaults / placeholders
const SPECIAL_IDS: &[&str] = &["NONE", "ECU", "none", "NON", "DLT", "\u{e4}\u{f6}", "\u{20ac}"];

pub fn gen_id(r: &mut Rng, alphabet: usize) -> String {
    if r.chance(1, 20) {
        return (*r.pick(SPECIAL_IDS)).to_string();
    }
    if r.chance(1, 25) {
        // a string literal of the source that fits an id field
        if let Some(s) = crate::dict::string_upto(r, 4) {
            if !s.contains('\0') {
                return s.to_string();
            }
        }
    }
    // 0..=4 bytes, no NUL; small alphabets make ids collide
    let len = *r.pick(&[0usize, 1, 2, 3, 4, 4, 4, 3]);
    let mut s = String::new();
    for _ in 0..len {
        s.push(ID_CHARS[r.below(alphabet.min(ID_CHARS.len()))] as char);
    }
    s
}

/// text starts that string-handling code likes to special-case: byte-order mark, replacement
/// character, line separators, first / last code point of each UTF-8 length, private use
/// texts that read as numbers, paths, markup or format strings
const MEANINGFUL_TEXTS: &[&str] = &[
    "0", "-1", "42", "4294967296", "18446744073709551616", "0x1F", "0b101", "1e10", "-0.5", "1.0E-3", "NaN", "inf", "-inf", "+7", "007", " 12 ", "1,5", "1_000",
    "true", "false", "null", "None", "/dev/null", "C:\\temp\\a.dlt", "../..", "a/b/c", "<a>", "&amp;", "]]>", "%d %s %n", "{0}", "$HOME", "\\0", "\\n",
];

const TEXT_STARTS: &[&str] = &[
    "\u{feff}", "\u{feff}\u{feff}", "\u{fffe}", "\u{fffd}", "\u{2028}", "\u{80}", "\u{7ff}", "\u{800}", "\u{ffff}", "\u{10000}",
    "\u{10ffff}", "\u{e000}", "\r\n", "\t", " ", "%s", "{}", "\\", "\u{300}", "DLT\u{1}",
];

fn gen_text(r: &mut Rng, max_bytes: usize, multibyte_pct: usize) -> String {
    const MB: &[&str] = &["ä", "ß", "€", "日", "本", "𝄞", "é", "Ω", "\u{7f}", "\u{1}", "\u{feff}", "\u{fffd}", "\u{10ffff}"];
    let mut s = String::new();
    if multibyte_pct > 0 && r.chance(1, 6) {
        let c = *r.pick(TEXT_STARTS);
        if c.len() <= max_bytes {
            s.push_str(c);
        }
    } else if r.chance(1, 14) {
        let c = *r.pick(MEANINGFUL_TEXTS);
        if c.len() <= max_bytes {
            // the whole text, not only its start: "is this a number" looks at all of it
            return c.to_string();
        }
    } else if r.chance(1, 12) {
        // a string literal of the source (keywords, separators, format fragments)
        if let Some(c) = crate::dict::string_upto(r, max_bytes) {
            if !c.contains('\0') {
                s.push_str(c);
            }
        }
    }
    while s.len() < max_bytes {
        if r.chance(multibyte_pct, 100) {
            let c = *r.pick(MB);
            if s.len() + c.len() > max_bytes {
                break;
            }
            s.push_str(c);
        } else {
            s.push((0x20 + r.below(0x5f) as u8) as char);
        }
    }
    s
}

/// a 32-bit header field: mostly random, sometimes a boundary value or a literal of the source
fn field_u32(r: &mut Rng, sw: &Swarm) -> u32 {
    if r.chance(sw.dict_pct, 100) {
        return crate::dict::num_below(r, u32::MAX as u64).unwrap_or(0) as u32;
    }
    match r.below(10) {
        0 => *r.pick(&[0u32, 1, u32::MAX, u32::MAX - 1, 0x7fff_ffff, 0x8000_0000, 0x0100_0000, 0x0001_0000, 0x444c_5401, 0x0154_4c44]),
        _ => r.u32(),
    }
}

/// `n` payload bytes; in swarms that ask for it, with the storage-header magic somewhere inside
fn payload_bytes(r: &mut Rng, sw: &Swarm, n: usize) -> Vec<u8> {
    let mut b = r.bytes(n);
    // content with a property rather than a value: one time in twelve the bytes are all equal,
    // ascending, descending, a palindrome, a two-byte period, or decimal / hex digits
    if n >= 2 && r.chance(1, 12) {
        match r.below(7) {
            0 => {
                let v = *r.pick(&[0u8, 0xff, 0x20, 0x44, 0x55, 0xaa]);
                b.iter_mut().for_each(|x| *x = v);
            }
            1 => b.iter_mut().enumerate().for_each(|(i, x)| *x = i as u8),
            2 => b.iter_mut().enumerate().for_each(|(i, x)| *x = 255 - (i as u8)),
            3 => {
                for i in 0..n / 2 {
                    b[n - 1 - i] = b[i];
                }
            }
            4 => {
                let (p, q) = (r.u8(), r.u8());
                b.iter_mut().enumerate().for_each(|(i, x)| *x = if i % 2 == 0 { p } else { q });
            }
            5 => b.iter_mut().for_each(|x| *x = b'0' + (*x % 10)),
            _ => b.iter_mut().for_each(|x| *x = b"0123456789abcdefABCDEF"[*x as usize % 22]),
        }
    }
    if n >= 1 && r.chance(sw.dict_pct, 100) {
        // a literal of the source somewhere in the payload: a number in either byte order, or a string
        let lit: Vec<u8> = match r.below(4) {
            0 => crate::dict::blob(r).to_vec(),
            1 => (crate::dict::num(r) as u32).to_le_bytes().to_vec(),
            2 => (crate::dict::num(r) as u32).to_be_bytes().to_vec(),
            _ => vec![crate::dict::num(r) as u8],
        };
        let k = lit.len().min(n);
        let at = if r.bool() { 0 } else { r.below(n - k + 1) };
        b[at..at + k].copy_from_slice(&lit[..k]);
    }
    if n >= 4 && r.chance(sw.embed_magic_pct, 100) {
        let at = match r.below(4) {
            0 => 0,
            1 => n - 4,
            _ => r.below(n - 3),
        };
        b[at..at + 4].copy_from_slice(b"DLT\x01");
    }
    b
}

fn bulk_size(r: &mut Rng, room: usize) -> usize {
    match r.below(4) {
        3 => {
            // a length L for which some number a of bytes, expanded k-fold by a decoder, makes
            // k*a + (L - a) hit a 16-bit boundary (see F-AMP): L = target - (k - 1) * a
            let k = *r.pick(&[2usize, 3, 3, 3, 4, 6]);
            let target = *r.pick(&[65_535usize, 65_535, 65_536, 32_768]);
            let a = 1 + r.below(target / k);
            let l = target - (k - 1) * a;
            if l <= room {
                l
            } else {
                room
            }
        }
        0 => room,
        1 => (((1usize << (8 + r.below(9))) + r.below(9)).saturating_sub(4)).min(room),
        _ => r.below(room + 1),
    }
}

fn size_class(r: &mut Rng, sw: &Swarm, budget: usize) -> usize {
    if r.chance(sw.dict_pct, 300) {
        // a size that is a literal of the source (or next to one)
        if let Some(n) = crate::dict::num_below(r, budget as u64) {
            return n as usize;
        }
    }
    let n = match r.weighted(&sw.size_w) {
        0 => r.below(9),
        1 => r.below(65),
        2 => r.below(1025),
        _ => match r.below(4) {
            0 => budget,
            // just below / at / above a power of two (256 .. 65536): where buffers are grown,
            // chunked and capped
            1 => ((1usize << (8 + r.below(9))) + r.below(9)).saturating_sub(4),
            _ => r.below(budget + 1),
        },
    };
    n.min(budget)
}

pub fn gen_message_type(r: &mut Rng, odd_pct: usize) -> MessageType {
    if r.chance(odd_pct, 100) {
        match r.below(6) {
            0 => MessageType::Log(LogLevel::Invalid(*r.pick(&[0u8, 7, 8, 15]))),
            1 => MessageType::ApplicationTrace(ApplicationTraceType::Invalid(*r.pick(&[0u8, 6, 15]))),
            2 => MessageType::NetworkTrace(NetworkTraceType::UserDefined(7 + r.below(9) as u8)),
            3 => MessageType::Control(ControlType::Unknown(*r.pick(&[0u8, 3, 15]))),
            4 => MessageType::Unknown((4 + r.below(4) as u8, r.below(16) as u8)),
            _ => MessageType::NetworkTrace(NetworkTraceType::Invalid),
        }
    } else {
        match r.below(10) {
            0..=5 => MessageType::Log(match r.below(6) {
                0 => LogLevel::Fatal,
                1 => LogLevel::Error,
                2 => LogLevel::Warn,
                3 => LogLevel::Info,
                4 => LogLevel::Debug,
                _ => LogLevel::Verbose,
            }),
            6 => MessageType::ApplicationTrace(match r.below(5) {
                0 => ApplicationTraceType::Variable,
                1 => ApplicationTraceType::FunctionIn,
                2 => ApplicationTraceType::FunctionOut,
                3 => ApplicationTraceType::State,
                _ => ApplicationTraceType::Vfb,
            }),
            7 => MessageType::NetworkTrace(match r.below(6) {
                0 => NetworkTraceType::Ipc,
                1 => NetworkTraceType::Can,
                2 => NetworkTraceType::Flexray,
                3 => NetworkTraceType::Most,
                4 => NetworkTraceType::Ethernet,
                _ => NetworkTraceType::Someip,
            }),
            _ => MessageType::Control(if r.bool() {
                ControlType::Request
            } else {
                ControlType::Response
            }),
        }
    }
}

fn gen_coding(r: &mut Rng) -> StringCoding {
    match r.below(8) {
        0..=3 => StringCoding::ASCII,
        4..=6 => StringCoding::UTF8,
        _ => StringCoding::Reserved(2 + r.below(6) as u8),
    }
}

const LENS: [TypeLength; 5] = [
    TypeLength::BitLength8,
    TypeLength::BitLength16,
    TypeLength::BitLength32,
    TypeLength::BitLength64,
    TypeLength::BitLength128,
];

fn interesting_u64(r: &mut Rng) -> u64 {
    match r.below(7) {
        6 => crate::dict::num(r),
        0 => 0,
        1 => u64::MAX,
        2 => 1u64 << r.below(64),
        3 => 0x8000_0000_0000_0000,
        _ => r.next_u64(),
    }
}

fn gen_uint(r: &mut Rng, l: TypeLength) -> Value {
    let v = interesting_u64(r);
    match l {
        TypeLength::BitLength8 => Value::U8(v as u8),
        TypeLength::BitLength16 => Value::U16(v as u16),
        TypeLength::BitLength32 => Value::U32(v as u32),
        TypeLength::BitLength64 => Value::U64(v),
        TypeLength::BitLength128 => Value::U128(((v as u128) << 64) | interesting_u64(r) as u128),
    }
}
fn gen_sint(r: &mut Rng, l: TypeLength) -> Value {
    let v = interesting_u64(r);
    match l {
        TypeLength::BitLength8 => Value::I8(v as i8),
        TypeLength::BitLength16 => Value::I16(v as i16),
        TypeLength::BitLength32 => Value::I32(v as i32),
        TypeLength::BitLength64 => Value::I64(v as i64),
        TypeLength::BitLength128 => {
            Value::I128((((v as u128) << 64) | interesting_u64(r) as u128) as i128)
        }
    }
}
fn gen_f32(r: &mut Rng) -> f32 {
    match r.below(6) {
        0 => 0.0,
        1 => f32::from_bits(0x7fc0_0001), // NaN with payload
        2 => f32::INFINITY,
        3 => f32::from_bits(0x7fa0_0000), // signalling NaN: a writer that widens / narrows the value sets the quiet bit
        _ => f32::from_bits(r.u32()),
    }
}
fn gen_f64(r: &mut Rng) -> f64 {
    match r.below(6) {
        0 => 0.0,
        1 => f64::from_bits(0x7ff8_0000_0000_0001),
        2 => f64::NEG_INFINITY,
        3 => f64::from_bits(0x7ff4_0000_0000_0001), // signalling NaN
        _ => f64::from_bits(r.next_u64()),
    }
}

/// A well-formed verbose argument (C01's quantifier) whose serialisation is at most `budget`
/// bytes, or None if nothing fits.
pub fn gen_argument(r: &mut Rng, sw: &Swarm, budget: usize) -> Option<Argument> {
    if budget < 5 {
        return None;
    }
    let vari = r.chance(sw.vari_pct, 100);
    let trace = r.chance(1, 10);
    let coding = gen_coding(r);
    let kind_ix = r.below(8);
    // fixed part sizes (without names)
    let mk = |kind: TypeInfoKind| TypeInfo {
        kind,
        coding: coding.clone(),
        has_variable_info: vari,
        has_trace_info: trace,
    };
    let (type_info, value, fixed_point, two_names, base): (TypeInfo, Value, Option<FixedPoint>, bool, usize) =
        match kind_ix {
            0 => (mk(TypeInfoKind::Bool), Value::Bool(*r.pick(&[0u8, 1, 1, 2, 255])), None, false, 4 + 1),
            1 => {
                let l = *r.pick(&LENS);
                (mk(TypeInfoKind::Signed(l)), gen_sint(r, l), None, true, 4 + l.width_in_bytes())
            }
            2 => {
                let l = *r.pick(&LENS);
                (mk(TypeInfoKind::Unsigned(l)), gen_uint(r, l), None, true, 4 + l.width_in_bytes())
            }
            3 => {
                if r.bool() {
                    (mk(TypeInfoKind::Float(FloatWidth::Width32)), Value::F32(gen_f32(r)), None, true, 8)
                } else {
                    (mk(TypeInfoKind::Float(FloatWidth::Width64)), Value::F64(gen_f64(r)), None, true, 12)
                }
            }
            4 => {
                if r.bool() {
                    let fp = FixedPoint { quantization: gen_f32(r), offset: FixedPointValue::I32(interesting_u64(r) as i32) };
                    (mk(TypeInfoKind::SignedFixedPoint(FloatWidth::Width32)), Value::I32(interesting_u64(r) as i32), Some(fp), true, 4 + 8 + 4)
                } else {
                    let fp = FixedPoint { quantization: gen_f32(r), offset: FixedPointValue::I64(interesting_u64(r) as i64) };
                    (mk(TypeInfoKind::SignedFixedPoint(FloatWidth::Width64)), Value::I64(interesting_u64(r) as i64), Some(fp), true, 4 + 12 + 8)
                }
            }
            5 => {
                if r.bool() {
                    let fp = FixedPoint { quantization: gen_f32(r), offset: FixedPointValue::I32(interesting_u64(r) as i32) };
                    (mk(TypeInfoKind::UnsignedFixedPoint(FloatWidth::Width32)), Value::U32(interesting_u64(r) as u32), Some(fp), true, 4 + 8 + 4)
                } else {
                    let fp = FixedPoint { quantization: gen_f32(r), offset: FixedPointValue::I64(interesting_u64(r) as i64) };
                    (mk(TypeInfoKind::UnsignedFixedPoint(FloatWidth::Width64)), Value::U64(interesting_u64(r)), Some(fp), true, 4 + 12 + 8)
                }
            }
            6 => (mk(TypeInfoKind::StringType), Value::StringVal(String::new()), None, false, 4 + 2 + 1),
            _ => (mk(TypeInfoKind::Raw), Value::Raw(vec![]), None, false, 4 + 2),
        };
    let name_overhead = if vari { if two_names { 6 } else { 3 } } else { 0 };
    if base + name_overhead > budget {
        return None;
    }
    let mut room = budget - base - name_overhead;
    let (name, unit) = if vari {
        let k = size_class(r, sw, room.min(300));
        let n = gen_text(r, k, sw.multibyte_pct);
        room -= n.len();
        if two_names {
            let k = size_class(r, sw, room.min(40));
            let u = gen_text(r, k, sw.multibyte_pct);
            room -= u.len();
            (Some(n), Some(u))
        } else {
            (Some(n), None)
        }
    } else {
        (None, None)
    };
    let value = match value {
        // a bulk field fills what the message has room for (or stops at a power of two) one time
        // in three: large arguments must not need two lucky draws
        Value::StringVal(_) => {
            let k = if room > 256 && r.chance(1, 3) { bulk_size(r, room) } else { size_class(r, sw, room) };
            Value::StringVal(gen_text(r, k, sw.multibyte_pct))
        }
        Value::Raw(_) => {
            let n = if room > 256 && r.chance(1, 3) { bulk_size(r, room) } else { size_class(r, sw, room) };
            Value::Raw(payload_bytes(r, sw, n))
        }
        v => v,
    };
    Some(Argument { type_info, name, unit, fixed_point, value })
}

/// Region map of one argument as the crate's writer lays it out.
fn arg_regions(a: &Argument, base: usize, out: &mut Vec<Reg>) -> usize {
    let mut p = base;
    let mut push = |k: Region, n: usize, p: &mut usize| {
        if n > 0 {
            out.push(Reg { start: *p, end: *p + n, kind: k });
        }
        *p += n;
    };
    push(Region::TypeInfo, 4, &mut p);
    let nl = |s: &Option<String>| s.as_ref().map(|s| s.len() + 1).unwrap_or(1);
    match a.type_info.kind {
        TypeInfoKind::Bool => {
            if let Some(n) = &a.name {
                push(Region::LenPrefix, 2, &mut p);
                push(Region::NameUnit, n.len() + 1, &mut p);
            }
            push(Region::Value, 1, &mut p);
        }
        TypeInfoKind::StringType | TypeInfoKind::Raw => {
            push(Region::LenPrefix, 2, &mut p);
            if let Some(n) = &a.name {
                push(Region::LenPrefix, 2, &mut p);
                push(Region::NameUnit, n.len() + 1, &mut p);
            }
            let n = match &a.value {
                Value::StringVal(s) => s.len() + 1,
                Value::Raw(b) => b.len(),
                _ => 0,
            };
            push(Region::Value, n, &mut p);
        }
        _ => {
            if a.type_info.has_variable_info {
                push(Region::LenPrefix, 4, &mut p);
                push(Region::NameUnit, nl(&a.name) + nl(&a.unit), &mut p);
            }
            if let Some(fp) = &a.fixed_point {
                let w = match fp.offset {
                    FixedPointValue::I32(_) => 8,
                    FixedPointValue::I64(_) => 12,
                };
                push(Region::FixedPt, w, &mut p);
            }
            push(Region::Value, a.type_info.type_width() / 8, &mut p);
        }
    }
    p - base
}

fn header_regions(storage: bool, htyp: u8, out: &mut Vec<Reg>) -> usize {
    let mut p = 0usize;
    let mut push = |k: Region, n: usize, p: &mut usize| {
        out.push(Reg { start: *p, end: *p + n, kind: k });
        *p += n;
    };
    if storage {
        push(Region::StPat, 4, &mut p);
        push(Region::StTime, 8, &mut p);
        push(Region::StEcu, 4, &mut p);
    }
    push(Region::Htyp, 1, &mut p);
    push(Region::Mcnt, 1, &mut p);
    push(Region::Len0, 1, &mut p);
    push(Region::Len1, 1, &mut p);
    if htyp & 0x04 != 0 {
        push(Region::Ecu, 4, &mut p);
    }
    if htyp & 0x08 != 0 {
        push(Region::Seid, 4, &mut p);
    }
    if htyp & 0x10 != 0 {
        push(Region::Tmsp, 4, &mut p);
    }
    if htyp & 0x01 != 0 {
        push(Region::Msin, 1, &mut p);
        push(Region::Noar, 1, &mut p);
        push(Region::Apid, 4, &mut p);
        push(Region::Ctid, 4, &mut p);
    }
    p
}

pub const KIND_NAMES: [&str; 5] = ["verbose", "nonverbose", "nonverbose_noext", "control", "nettrace"];

/// One well-formed message, inside the domain of C01's quantifier.
pub fn gen_message(r: &mut Rng, sw: &Swarm) -> (Message, &'static str) {
    let kind = r.weighted(&sw.kind_w);
    let big = r.chance(sw.big_endian_pct, 100);
    let ecu_id = if r.chance(sw.opt_field_pct[0], 100) { Some(gen_id(r, sw.id_alphabet)) } else { None };
    let session_id = if r.chance(sw.opt_field_pct[1], 100) { Some(sw.session_const.unwrap_or_else(|| field_u32(r, sw))) } else { None };
    let timestamp = if r.chance(sw.opt_field_pct[2], 100) {
        Some(match sw.time_mode {
            1 => {
                let t = sw.seq.ts.get().wrapping_add(*r.pick(&[0u32, 0, 1, 1, 10, 10_000]));
                sw.seq.ts.set(t);
                t
            }
            2 => sw.seq.ts.get(),
            3 => {
                let t = sw.seq.ts.get().wrapping_sub(1 + r.below(3) as u32);
                sw.seq.ts.set(t);
                t
            }
            _ => field_u32(r, sw),
        })
    } else {
        None
    };
    let has_ext = kind != 2;
    let hdr_len = 4
        + ecu_id.as_ref().map_or(0, |_| 4)
        + session_id.map_or(0, |_| 4)
        + timestamp.map_or(0, |_| 4)
        + if has_ext { 10 } else { 0 };
    let max_payload = 65535 - hdr_len;
    let budget = size_class(r, sw, max_payload).max(0);
    let (payload, verbose, noar, mtype): (PayloadContent, bool, u8, Option<MessageType>) = match kind {
        0 => {
            // verbose
            let mut args = vec![];
            let mut left = budget;
            let want = if r.chance(1, 50) { 255 } else { r.below(sw.max_args + 1) };
            for _ in 0..want {
                // one argument in ten is its predecessor with one component changed (two
                // channels logged side by side that differ in scaling, name, unit or value only)
                if r.chance(1, 10) {
                    if let Some(prev) = args.last().cloned() {
                        let mut a: Argument = prev;
                        match r.below(5) {
                            0 => {
                                if let Some(fp) = a.fixed_point.as_mut() {
                                    fp.quantization = gen_f32(r);
                                    fp.offset = match fp.offset {
                                        FixedPointValue::I32(_) => FixedPointValue::I32(interesting_u64(r) as i32),
                                        FixedPointValue::I64(_) => FixedPointValue::I64(interesting_u64(r) as i64),
                                    };
                                }
                            }
                            1 => {
                                if let Some(n) = a.name.as_mut() {
                                    if n.len() < 200 && !n.is_empty() {
                                        n.pop();
                                        n.push('x');
                                    }
                                }
                            }
                            2 => {
                                if let Some(u) = a.unit.as_mut() {
                                    if !u.is_empty() {
                                        u.pop();
                                        u.push('y');
                                    }
                                }
                            }
                            3 => a.type_info.has_trace_info = !a.type_info.has_trace_info,
                            _ => {}
                        }
                        if a.len() <= left {
                            left -= a.len();
                            args.push(a);
                            continue;
                        }
                    }
                }
                match gen_argument(r, sw, left) {
                    Some(a) => {
                        left -= a.len();
                        args.push(a);
                    }
                    None => break,
                }
            }
            let mut mt = gen_message_type(r, sw.odd_msgtype_pct);
            if let MessageType::NetworkTrace(_) = mt {
                mt = MessageType::Log(LogLevel::Info);
            }
            let n = args.len() as u8;
            (PayloadContent::Verbose(args), true, n, Some(mt))
        }
        1 | 2 => {
            let n = budget.saturating_sub(4);
            let id = if r.bool() { r.below(32) as u32 } else { field_u32(r, sw) };
            let mut mt = gen_message_type(r, sw.odd_msgtype_pct);
            if let MessageType::Control(_) = mt {
                mt = MessageType::Log(LogLevel::Warn);
            }
            (PayloadContent::NonVerbose(id, payload_bytes(r, sw, n)), false, 0, if has_ext { Some(mt) } else { None })
        }
        3 => {
            let n = budget.saturating_sub(1);
            let ct = match r.below(4) {
                0 => ControlType::Request,
                1 => ControlType::Response,
                _ => ControlType::Unknown(*r.pick(&[0u8, 3, 0x11, 0x13, 0xff])),
            };
            let mt = MessageType::Control(match r.below(4) {
                0 => ControlType::Request,
                1 => ControlType::Response,
                2 => ControlType::Unknown(0),
                _ => ControlType::Unknown(3 + r.below(13) as u8),
            });
            (PayloadContent::ControlMsg(ct, payload_bytes(r, sw, n)), false, 0, Some(mt))
        }
        _ => {
            // network trace: verbose, every argument raw without variable info
            let mut slices = vec![];
            let mut left = budget;
            let want = r.below(sw.max_args.min(6) + 1);
            for _ in 0..want {
                if left < 6 {
                    break;
                }
                let n = size_class(r, sw, left - 6);
                slices.push(payload_bytes(r, sw, n));
                left -= 6 + n;
            }
            let nt = match r.below(8) {
                0 => NetworkTraceType::Ipc,
                1 => NetworkTraceType::Can,
                2 => NetworkTraceType::Flexray,
                3 => NetworkTraceType::Most,
                4 => NetworkTraceType::Ethernet,
                5 => NetworkTraceType::Someip,
                6 => NetworkTraceType::Invalid,
                _ => NetworkTraceType::UserDefined(7 + r.below(9) as u8),
            };
            let n = slices.len() as u8;
            (PayloadContent::NetworkTrace(slices), true, n, Some(MessageType::NetworkTrace(nt)))
        }
    };
    let payload_length = match &payload {
        PayloadContent::Verbose(a) => a.iter().map(|a| a.len()).sum::<usize>(),
        PayloadContent::NonVerbose(_, p) => 4 + p.len(),
        PayloadContent::ControlMsg(_, p) => 1 + p.len(),
        PayloadContent::NetworkTrace(s) => s.iter().map(|s| 6 + s.len()).sum::<usize>(),
    };
    debug_assert!(payload_length <= max_payload);
    let storage_header = if sw.storage {
        Some(match &sw.fixed_storage_header {
            Some((s, us, id)) => StorageHeader { timestamp: DltTimeStamp { seconds: *s, microseconds: *us }, ecu_id: id.clone() },
            None => StorageHeader {
                timestamp: DltTimeStamp { seconds: r.u32(), microseconds: r.below(1_000_000) as u32 },
                ecu_id: gen_id(r, sw.id_alphabet),
            },
        })
    } else {
        None
    };
    let m = Message {
        storage_header,
        header: StandardHeader {
            version: r.below(8) as u8,
            endianness: if big { Endianness::Big } else { Endianness::Little },
            has_extended_header: has_ext,
            message_counter: match sw.counter_mode {
                1 => {
                    let c = sw.seq.counter.get();
                    sw.seq.counter.set(c.wrapping_add(1));
                    c
                }
                2 => sw.seq.counter.get(),
                _ => r.u8(),
            },
            ecu_id,
            session_id,
            timestamp,
            payload_length: payload_length as u16,
        },
        extended_header: mtype.map(|message_type| ExtendedHeader {
            verbose,
            argument_count: noar,
            message_type,
            application_id: if sw.sorted_ids {
                let k = sw.seq.id.get();
                sw.seq.id.set(k + r.below(3) as u32);
                format!("{:04}", k % 10_000)
            } else {
                gen_id(r, sw.id_alphabet)
            },
            context_id: gen_id(r, sw.id_alphabet),
        }),
        payload,
    };
    let mut m = m;
    // one message in 50 with a raw payload: header bytes that equal each other — the message
    // counter, both length bytes, or all three, are made equal to the header type byte (the length
    // by sizing the payload), or the counter equals the low length byte
    if matches!(kind, 1 | 2 | 3) && r.chance(1, 50) {
        let htyp = m.header.header_type_byte() as usize;
        let shape = r.below(4);
        if shape != 1 {
            m.header.message_counter = htyp as u8;
        }
        if shape != 0 {
            let want_total = if shape == 3 { (htyp << 8) | (m.header.message_counter as usize) } else { htyp * 257 };
            let fixed = hdr_len + if kind == 3 { 1 } else { 4 };
            if want_total >= fixed && want_total <= 65_535 {
                let n = want_total - fixed;
                match &mut m.payload {
                    PayloadContent::NonVerbose(_, p) | PayloadContent::ControlMsg(_, p) => {
                        let b = payload_bytes(r, sw, n);
                        *p = b;
                    }
                    _ => {}
                }
                m.header.payload_length = (want_total - hdr_len) as u16;
            }
        }
    }
    (m, KIND_NAMES[kind])
}

/// Serialise with the crate's writer and map every byte.
pub fn record_of(m: &Message, kind: &'static str) -> Rec {
    let bytes = m.as_bytes();
    let mut regs = vec![];
    let storage = m.storage_header.is_some();
    // the region map below describes the layout the crate's writer uses today; should the writer
    // ever lay a message out differently, the map degrades (regions past the end are dropped, fault
    // placement becomes less precise) but the harness must not fall over: no verdict uses the map
    if bytes.len() < if storage { 20 } else { 4 } {
        return Rec { bytes, regs, kind, foreign: false };
    }
    let htyp = bytes[if storage { 16 } else { 0 }];
    let mut p = header_regions(storage, htyp, &mut regs);
    match &m.payload {
        PayloadContent::Verbose(args) => {
            for a in args {
                p += arg_regions(a, p, &mut regs);
            }
        }
        PayloadContent::NetworkTrace(slices) => {
            for s in slices {
                regs.push(Reg { start: p, end: p + 4, kind: Region::TypeInfo });
                regs.push(Reg { start: p + 4, end: p + 6, kind: Region::LenPrefix });
                if !s.is_empty() {
                    regs.push(Reg { start: p + 6, end: p + 6 + s.len(), kind: Region::Value });
                }
                p += 6 + s.len();
            }
        }
        _ => {
            if bytes.len() > p {
                regs.push(Reg { start: p, end: bytes.len(), kind: Region::RawPayload });
            }
        }
    }
    let n = bytes.len();
    regs.retain(|g| g.start < g.end && g.end <= n);
    Rec { bytes, regs, kind, foreign: false }
}

/// a verbose message whose only argument is a bulk string of an amplification-friendly length
/// (see `bulk_size` / F-AMP)
pub fn amp_record(r: &mut Rng, sw: &Swarm) -> Rec {
    let (mut m, _) = gen_message(r, sw);
    let k = *r.pick(&[2usize, 3, 3, 3, 4, 6]);
    let target = *r.pick(&[65_535usize, 65_535, 65_536]);
    let hdr = 4 + m.header.ecu_id.as_ref().map_or(0, |_| 4) + m.header.session_id.map_or(0, |_| 4) + m.header.timestamp.map_or(0, |_| 4) + 10;
    let room = 65_535 - hdr - 4 - 2 - 1;
    let lo = (target.saturating_sub(room) + k - 2) / (k - 1);
    let a = lo.max(1) + r.below((target / k).saturating_sub(lo.max(1)) + 1);
    let l = (target - (k - 1) * a).min(room);
    let text: String = (0..l).map(|_| (b'a' + r.below(26) as u8) as char).collect();
    let arg = Argument {
        type_info: TypeInfo { kind: TypeInfoKind::StringType, coding: if r.bool() { StringCoding::UTF8 } else { StringCoding::ASCII }, has_variable_info: false, has_trace_info: false },
        name: None,
        unit: None,
        fixed_point: None,
        value: Value::StringVal(text),
    };
    m.header.has_extended_header = true;
    m.header.payload_length = arg.len() as u16;
    let (app, ctx) = match &m.extended_header {
        Some(x) => (x.application_id.clone(), x.context_id.clone()),
        None => ("APP".to_string(), "CTX".to_string()),
    };
    m.extended_header = Some(ExtendedHeader { verbose: true, argument_count: 1, message_type: MessageType::Log(LogLevel::Info), application_id: app, context_id: ctx });
    m.payload = PayloadContent::Verbose(vec![arg]);
    record_of(&m, "verbose")
}

pub fn gen_record(r: &mut Rng, sw: &Swarm) -> Rec {
    if r.chance(sw.dup_pct, 100) {
        // the same record once more, byte for byte (a retransmission, a logger that repeats itself)
        if let Some(prev) = sw.seq.last.borrow().as_ref() {
            return prev.clone();
        }
    }
    // ... or the previous message with exactly one field changed (the next counter value, the
    // next tick, another ECU, one more payload byte): neighbours that are equal except for that
    if r.chance(sw.dup_pct, 200) {
        let prev = sw.seq.last_msg.borrow().clone();
        if let Some((mut m, k)) = prev {
            match r.below(6) {
                0 => m.header.message_counter = m.header.message_counter.wrapping_add(1),
                1 => m.header.timestamp = m.header.timestamp.map(|t| t.wrapping_add(1)),
                2 => m.header.session_id = m.header.session_id.map(|s| s ^ 1),
                3 => {
                    if let Some(id) = m.header.ecu_id.as_mut() {
                        *id = gen_id(r, sw.id_alphabet);
                    }
                }
                4 => {
                    if let Some(sh) = m.storage_header.as_mut() {
                        sh.timestamp.microseconds = (sh.timestamp.microseconds + 1) % 1_000_000;
                    }
                }
                _ => {
                    if let Some(x) = m.extended_header.as_mut() {
                        x.context_id = gen_id(r, sw.id_alphabet);
                    }
                }
            }
            let rec = record_of(&m, k);
            *sw.seq.last.borrow_mut() = Some(rec.clone());
            *sw.seq.last_msg.borrow_mut() = Some((m, k));
            return rec;
        }
    }
    let (m, k) = gen_message(r, sw);
    let rec = record_of(&m, k);
    *sw.seq.last.borrow_mut() = Some(rec.clone());
    *sw.seq.last_msg.borrow_mut() = Some((m, k));
    rec
}

// ---------------------------------------------------------------------------------------------
// Foreign-ECU stub producer: an independent writer of the dialect real ECUs emit and the crate's
// parser accepts but its writer never produces. Hand-written layout, no crate code involved.
// ---------------------------------------------------------------------------------------------

fn w16(be: bool, v: u16, out: &mut Vec<u8>) {
    out.extend_from_slice(&if be { v.to_be_bytes() } else { v.to_le_bytes() });
}
fn w32(be: bool, v: u32, out: &mut Vec<u8>) {
    out.extend_from_slice(&if be { v.to_be_bytes() } else { v.to_le_bytes() });
}
fn raw_id(r: &mut Rng) -> [u8; 4] {
    let mut id = [0u8; 4];
    match r.below(6) {
        0 => {}                                   // all NUL
        1 => id = [b'A', 0, b'B', 0],             // embedded NUL
        2 => id = [b'E', b'C', b'U', b'1'],       // full
        3 => id = [0xff, 0xfe, b'x', 0],          // invalid UTF-8
        4 => id = [0xc3, 0xa4, 0, 0],             // multi-byte
        _ => r.fill(&mut id),
    }
    id
}

pub fn gen_foreign_record(r: &mut Rng, storage: bool) -> Rec {
    let be = r.bool();
    let mut regs = vec![];
    let mut htyp: u8 = 0x01 | (r.below(8) as u8) << 5;
    if be {
        htyp |= 0x02;
    }
    let (weid, wsid, wtms) = (r.bool(), r.bool(), r.bool());
    if weid {
        htyp |= 0x04;
    }
    if wsid {
        htyp |= 0x08;
    }
    if wtms {
        htyp |= 0x10;
    }
    let mut payload = vec![];
    let flavour = r.below(10);
    let mut noar: u8;
    let mut msin: u8;
    let verbose = flavour != 9;
    // MSIN: verbose bit + type + info
    match flavour {
        0 | 1 => {
            // BE/LE verbose network trace with correctly-ordered raw type-info
            msin = 0x01 | (0x2 << 1) | ((1 + r.below(6) as u8) << 4);
            noar = r.below(4) as u8;
            for _ in 0..noar {
                let mut ti: u32 = 1 << 10;
                if r.chance(1, 4) {
                    ti |= (r.below(8) as u32) << 15; // coding bits on raw
                }
                w32(be, ti, &mut payload);
                let n = if r.chance(1, 12) { *r.pick(&[4095usize, 4096, 4097, 9000]) } else { r.below(20) };
                w16(be, n as u16, &mut payload);
                payload.extend(r.bytes(n));
            }
        }
        _ => {
            msin = 0x01 | ((r.below(4) as u8) << 1) | ((r.below(16) as u8) << 4);
            if (msin >> 1) & 7 == 2 {
                msin &= !(0x2 << 1); // keep network trace for flavours 0/1
            }
            let want = 1 + r.below(4) as u8;
            noar = 0;
            for _ in 0..want {
                if payload.len() > 40_000 {
                    break; // keep the total below the 16-bit length field
                }
                noar += 1;
                match r.below(9) {
                    8 => {
                        // plain raw (no VARI) with TRAI and / or coding bits, small or bulk: bits
                        // the crate's writer never sets on raw data, sizes where writers switch paths
                        let mut ti: u32 = 1 << 10;
                        if r.bool() {
                            ti |= 1 << 13;
                        }
                        ti |= (r.below(8) as u32) << 15;
                        w32(be, ti, &mut payload);
                        let n = *r.pick(&[0usize, 1, 7, 255, 256, 4095, 4096, 4097, 8192, 20_000]);
                        w16(be, n as u16, &mut payload);
                        payload.extend(r.bytes(n));
                    }
                    0 => {
                        // bool with TYLE=1
                        let mut ti: u32 = (1 << 4) | 1;
                        if r.chance(1, 3) {
                            ti |= 1 << 14; // STRU bit, unused by the crate
                        }
                        w32(be, ti, &mut payload);
                        payload.push(*r.pick(&[0u8, 1, 2, 0xff]));
                    }
                    1 => {
                        // string with TYLE set, reserved high bits set, no terminator
                        let mut ti: u32 = (1 << 9) | (r.below(6) as u32);
                        if r.bool() {
                            ti |= (r.below(0x3fff) as u32) << 18;
                        }
                        ti |= (r.below(8) as u32) << 15;
                        w32(be, ti, &mut payload);
                        let n = r.below(12);
                        w16(be, n as u16, &mut payload);
                        for _ in 0..n {
                            payload.push(*r.pick(&[b'a', b'b', 0xc3, 0xa4, 0xff, b'z', b' ']));
                        }
                    }
                    2 => {
                        // string with embedded NUL and bytes after it
                        let ti: u32 = 1 << 9;
                        w32(be, ti, &mut payload);
                        let s = [b'h', b'i', 0, b'x', b'y'];
                        w16(be, s.len() as u16, &mut payload);
                        payload.extend_from_slice(&s);
                    }
                    3 => {
                        // VARI uint with zero-size name and unit fields
                        let ti: u32 = (1 << 6) | (1 << 11) | 3;
                        w32(be, ti, &mut payload);
                        w16(be, 0, &mut payload);
                        w16(be, 0, &mut payload);
                        w32(be, r.u32(), &mut payload);
                    }
                    4 => {
                        // VARI sint with unterminated name, TRAI and STRU set
                        let ti: u32 = (1 << 5) | (1 << 11) | (1 << 13) | (1 << 14) | 2;
                        w32(be, ti, &mut payload);
                        w16(be, 3, &mut payload);
                        w16(be, 2, &mut payload);
                        payload.extend_from_slice(b"abcmV");
                        w16(be, r.u32() as u16, &mut payload);
                    }
                    5 => {
                        // raw with TYLE bits and VARI name
                        let ti: u32 = (1 << 10) | (1 << 11) | (r.below(8) as u32);
                        w32(be, ti, &mut payload);
                        let n = r.below(9);
                        w16(be, n as u16, &mut payload);
                        w16(be, 2, &mut payload);
                        payload.extend_from_slice(&[b'n', 0]);
                        payload.extend(r.bytes(n));
                    }
                    6 => {
                        // fixed point with FIXP and float quantisation NaN
                        let ti: u32 = (1 << 6) | (1 << 12) | 3;
                        w32(be, ti, &mut payload);
                        w32(be, 0x7fc0_0000 | r.below(1000) as u32, &mut payload);
                        w32(be, r.u32(), &mut payload);
                        w32(be, r.u32(), &mut payload);
                    }
                    _ => {
                        // float64 with reserved bits; one in four a float32 instead, and NaNs with
                        // the quiet bit clear (signalling) among them - a value only a foreign writer
                        // can put on the medium if the crate's own writer normalises floats. Decided
                        // from the bytes already drawn, so the PRNG stream is the same as before.
                        let res = (r.below(4) as u32) << 18;
                        let mut bs = r.bytes(8);
                        if bs[0] & 3 == 0 {
                            w32(be, (1 << 7) | 3 | res, &mut payload);
                            let mut v = u32::from_le_bytes([bs[4], bs[5], bs[6], bs[7]]);
                            if bs[1] & 1 == 0 {
                                v = (v & 0x803f_ffff) | 0x7f80_0000 | 1; // signalling NaN, random sign and payload
                            }
                            if be { payload.extend_from_slice(&v.to_be_bytes()) } else { payload.extend_from_slice(&v.to_le_bytes()) }
                        } else {
                            w32(be, (1 << 7) | 4 | res, &mut payload);
                            if bs[0] & 3 == 1 {
                                let v = (u64::from_le_bytes([bs[0], bs[1], bs[2], bs[3], bs[4], bs[5], bs[6], bs[7]]) & 0x8007_ffff_ffff_ffff) | 0x7ff0_0000_0000_0001;
                                bs = if be { v.to_be_bytes().to_vec() } else { v.to_le_bytes().to_vec() };
                            }
                            payload.extend(bs);
                        }
                    }
                }
            }
        }
    }
    if !verbose {
        // non-verbose with a non-zero NOAR (real ECUs do that)
        msin = ((r.below(3) as u8) << 1) | ((r.below(16) as u8) << 4);
        if (msin >> 1) & 7 == 3 {
            msin = 0x40;
        }
        noar = 1 + r.below(200) as u8;
        payload.clear();
        w32(be, r.u32(), &mut payload);
        let n = r.below(24);
        payload.extend(r.bytes(n));
    }
    let mut out = vec![];
    if storage {
        out.extend_from_slice(b"DLT\x01");
        out.extend(r.bytes(8));
        out.extend_from_slice(&raw_id(r));
    }
    let hstart = out.len();
    let hl = header_regions(storage, htyp, &mut regs);
    let total = (hl - hstart) + payload.len();
    out.push(htyp);
    out.push(r.u8());
    out.extend_from_slice(&(total as u16).to_be_bytes());
    if weid {
        out.extend_from_slice(&raw_id(r));
    }
    if wsid {
        out.extend(r.bytes(4));
    }
    if wtms {
        out.extend(r.bytes(4));
    }
    out.push(msin);
    out.push(noar);
    out.extend_from_slice(&raw_id(r));
    out.extend_from_slice(&raw_id(r));
    debug_assert_eq!(out.len(), hl);
    if !payload.is_empty() {
        regs.push(Reg { start: hl, end: hl + payload.len(), kind: Region::RawPayload });
    }
    out.extend(payload);
    Rec { bytes: out, regs, kind: "foreign", foreign: true }
}
