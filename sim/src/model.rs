//! Small executable reference models, independent of the crate's writer and parser where it
//! matters: the Cutter (where does each record of a byte stream end), a header decoder (flags,
//! header lengths, ids, MSIN nibbles), a naive pattern search and a statistics tally.

use dlt_core::dlt::*;
use dlt_core::parse::{DltParseError, ParsedMessage};
use std::collections::BTreeMap;

pub const PATTERN: [u8; 4] = [0x44, 0x4C, 0x54, 0x01];

/// first occurrence of "DLT\x01", byte by byte
pub fn naive_find(hay: &[u8]) -> Option<usize> {
    if hay.len() < 4 {
        return None;
    }
    (0..=hay.len() - 4).find(|&i| hay[i..i + 4] == PATTERN)
}

pub fn std_header_len(htyp: u8) -> usize {
    let mut n = 4;
    if htyp & 0x04 != 0 {
        n += 4;
    }
    if htyp & 0x08 != 0 {
        n += 4;
    }
    if htyp & 0x10 != 0 {
        n += 4;
    }
    n
}
pub fn all_headers_len(htyp: u8) -> usize {
    std_header_len(htyp) + if htyp & 0x01 != 0 { 10 } else { 0 }
}

/// What the Cutter sees at one position of the stream.
#[derive(Clone, Debug, PartialEq)]
pub enum Cut {
    /// a whole record of this many bytes (storage header included) is present
    Piece(usize),
    /// fewer bytes than the fixed header (storage + 4) remain; 0 = clean end of stream
    Eos(usize),
    /// header present but fewer bytes than declared remain
    Short { declared: usize, have: usize },
    /// declared length is smaller than the 4-byte minimum header
    ShortLen(usize),
    /// declared total (storage header + LEN) is larger than the `message_max_len` the reader was
    /// configured with (only with an explicit limit; the default constructor fits every record)
    Oversize(usize),
}

/// The Cutter: own reading of the format — 16-byte storage header if the mode says so, big-endian
/// u16 at offset 2 of the standard header.
pub fn cut_at(stream: &[u8], pos: usize, storage: bool) -> Cut {
    cut_at_lim(stream, pos, storage, 0)
}

/// `limit`: the reader's configured `message_max_len`; 0 = no limit
pub fn cut_at_lim(stream: &[u8], pos: usize, storage: bool, limit: usize) -> Cut {
    let sl = if storage { 16 } else { 0 };
    let rest = &stream[pos.min(stream.len())..];
    if rest.len() < sl + 4 {
        return Cut::Eos(rest.len());
    }
    let len = ((rest[sl + 2] as usize) << 8) | rest[sl + 3] as usize;
    if len < 4 {
        return Cut::ShortLen(len);
    }
    let total = sl + len;
    if limit != 0 && total > limit {
        return Cut::Oversize(total);
    }
    if rest.len() < total {
        return Cut::Short { declared: total, have: rest.len() };
    }
    Cut::Piece(total)
}

/// Walk the whole stream; returns piece ranges and the terminal cut.
pub fn cut_all(stream: &[u8], storage: bool) -> (Vec<(usize, usize)>, Cut) {
    cut_all_lim(stream, storage, 0)
}

pub fn cut_all_lim(stream: &[u8], storage: bool, limit: usize) -> (Vec<(usize, usize)>, Cut) {
    let mut pos = 0;
    let mut pieces = vec![];
    loop {
        match cut_at_lim(stream, pos, storage, limit) {
            Cut::Piece(n) => {
                pieces.push((pos, pos + n));
                pos += n;
            }
            t => return (pieces, t),
        }
    }
}

/// largest declared total (storage header + LEN) the walk meets, including a truncated last one
pub fn max_declared(stream: &[u8], storage: bool) -> usize {
    let sl = if storage { 16 } else { 0 };
    let mut pos = 0;
    let mut max = sl + 4;
    loop {
        match cut_at(stream, pos, storage) {
            Cut::Piece(n) => {
                max = max.max(n);
                pos += n;
            }
            Cut::Short { declared, .. } => return max.max(declared),
            _ => return max,
        }
    }
}

// ---------------------------------------------------------------------------------------------
// Header decoder (independent of writer and parser)
// ---------------------------------------------------------------------------------------------

#[derive(Clone, Debug, PartialEq)]
pub struct HdrView {
    pub storage_ecu: Option<String>,
    pub storage_secs: u32,
    pub storage_micros: u32,
    pub htyp: u8,
    pub mcnt: u8,
    pub len: usize,
    pub ecu: Option<String>,
    pub seid: Option<u32>,
    pub tmsp: Option<u32>,
    pub msin: Option<u8>,
    pub noar: Option<u8>,
    pub apid: Option<String>,
    pub ctid: Option<String>,
    pub headers_len: usize,
}

/// id field: bytes up to the first NUL, longest valid UTF-8 prefix (the crate's documented rule,
/// C19; re-implemented here with the std library only)
pub fn id_str(b: &[u8]) -> String {
    let cut = b.iter().position(|c| *c == 0).unwrap_or(b.len());
    let s = &b[..cut];
    match std::str::from_utf8(s) {
        Ok(v) => v.to_string(),
        Err(e) => std::str::from_utf8(&s[..e.valid_up_to()]).unwrap().to_string(),
    }
}

/// Decode the headers of a record that starts at `rec[0]`. None if the record is too short to hold
/// the headers its HTYP announces.
pub fn decode_headers(rec: &[u8], storage: bool) -> Option<HdrView> {
    let sl = if storage { 16 } else { 0 };
    if rec.len() < sl + 4 {
        return None;
    }
    let (storage_ecu, storage_secs, storage_micros) = if storage {
        (
            Some(id_str(&rec[12..16])),
            u32::from_le_bytes([rec[4], rec[5], rec[6], rec[7]]),
            u32::from_le_bytes([rec[8], rec[9], rec[10], rec[11]]),
        )
    } else {
        (None, 0, 0)
    };
    let h = &rec[sl..];
    let htyp = h[0];
    let hl = all_headers_len(htyp);
    if h.len() < hl {
        return None;
    }
    let mut p = 4;
    let mut ecu = None;
    let mut seid = None;
    let mut tmsp = None;
    if htyp & 0x04 != 0 {
        ecu = Some(id_str(&h[p..p + 4]));
        p += 4;
    }
    if htyp & 0x08 != 0 {
        seid = Some(u32::from_be_bytes([h[p], h[p + 1], h[p + 2], h[p + 3]]));
        p += 4;
    }
    if htyp & 0x10 != 0 {
        tmsp = Some(u32::from_be_bytes([h[p], h[p + 1], h[p + 2], h[p + 3]]));
        p += 4;
    }
    let (mut msin, mut noar, mut apid, mut ctid) = (None, None, None, None);
    if htyp & 0x01 != 0 {
        msin = Some(h[p]);
        noar = Some(h[p + 1]);
        apid = Some(id_str(&h[p + 2..p + 6]));
        ctid = Some(id_str(&h[p + 6..p + 10]));
    }
    Some(HdrView {
        storage_ecu,
        storage_secs,
        storage_micros,
        htyp,
        mcnt: h[1],
        len: ((h[2] as usize) << 8) | h[3] as usize,
        ecu,
        seid,
        tmsp,
        msin,
        noar,
        apid,
        ctid,
        headers_len: hl,
    })
}

/// statistics bucket of a record: 0 non_log, 1 fatal, 2 error, 3 warn, 4 info, 5 debug,
/// 6 verbose, 7 invalid
pub fn level_bucket(msin: Option<u8>) -> usize {
    match msin {
        None => 0,
        Some(m) => {
            if (m >> 1) & 0b111 != 0 {
                0
            } else {
                match m >> 4 {
                    n @ 1..=6 => n as usize,
                    _ => 7,
                }
            }
        }
    }
}

#[derive(Clone, Debug, Default, PartialEq)]
pub struct Tally {
    pub app: BTreeMap<String, [usize; 8]>,
    pub ctx: BTreeMap<String, [usize; 8]>,
    pub ecu: BTreeMap<String, [usize; 8]>,
    pub non_verbose: bool,
    pub records: usize,
}

impl Tally {
    pub fn add(&mut self, h: &HdrView) {
        let b = level_bucket(h.msin);
        let e = h.ecu.clone().unwrap_or_else(|| "NONE".to_string());
        self.ecu.entry(e).or_insert([0; 8])[b] += 1;
        if let (Some(a), Some(c)) = (&h.apid, &h.ctid) {
            self.app.entry(a.clone()).or_insert([0; 8])[b] += 1;
            self.ctx.entry(c.clone()).or_insert([0; 8])[b] += 1;
        }
        let verbose = h.msin.map_or(false, |m| m & 1 != 0);
        if !verbose {
            self.non_verbose = true;
        }
        self.records += 1;
    }
}

// ---------------------------------------------------------------------------------------------
// Canonical encodings of the crate's values (floats by bit pattern), used to compare results of
// two runs of the real code and to hash histories.
// ---------------------------------------------------------------------------------------------

fn put_str(s: &str, out: &mut Vec<u8>) {
    out.extend_from_slice(&(s.len() as u32).to_le_bytes());
    out.extend_from_slice(s.as_bytes());
}
fn put_opt_str(s: &Option<String>, out: &mut Vec<u8>) {
    match s {
        None => out.push(0),
        Some(s) => {
            out.push(1);
            put_str(s, out)
        }
    }
}
fn put_opt_u32(s: &Option<u32>, out: &mut Vec<u8>) {
    match s {
        None => out.push(0),
        Some(v) => {
            out.push(1);
            out.extend_from_slice(&v.to_le_bytes())
        }
    }
}

pub fn canon_msgtype(t: &MessageType, out: &mut Vec<u8>) {
    out.extend_from_slice(format!("{:?}", t).as_bytes());
    out.push(0);
}

pub fn canon_std(h: &StandardHeader, out: &mut Vec<u8>) {
    out.push(h.version);
    out.push((h.endianness == Endianness::Big) as u8);
    out.push(h.has_extended_header as u8);
    out.push(h.message_counter);
    put_opt_str(&h.ecu_id, out);
    put_opt_u32(&h.session_id, out);
    put_opt_u32(&h.timestamp, out);
    out.extend_from_slice(&h.payload_length.to_le_bytes());
}
pub fn canon_ext(e: &Option<ExtendedHeader>, out: &mut Vec<u8>) {
    match e {
        None => out.push(0),
        Some(e) => {
            out.push(1);
            out.push(e.verbose as u8);
            out.push(e.argument_count);
            canon_msgtype(&e.message_type, out);
            put_str(&e.application_id, out);
            put_str(&e.context_id, out);
        }
    }
}
pub fn canon_storage(s: &Option<StorageHeader>, out: &mut Vec<u8>) {
    match s {
        None => out.push(0),
        Some(s) => {
            out.push(1);
            out.extend_from_slice(&s.timestamp.seconds.to_le_bytes());
            out.extend_from_slice(&s.timestamp.microseconds.to_le_bytes());
            put_str(&s.ecu_id, out);
        }
    }
}

pub fn canon_value(v: &Value, out: &mut Vec<u8>) {
    match v {
        Value::Bool(x) => {
            out.push(0);
            out.push(*x)
        }
        Value::U8(x) => {
            out.push(1);
            out.push(*x)
        }
        Value::U16(x) => {
            out.push(2);
            out.extend_from_slice(&x.to_le_bytes())
        }
        Value::U32(x) => {
            out.push(3);
            out.extend_from_slice(&x.to_le_bytes())
        }
        Value::U64(x) => {
            out.push(4);
            out.extend_from_slice(&x.to_le_bytes())
        }
        Value::U128(x) => {
            out.push(5);
            out.extend_from_slice(&x.to_le_bytes())
        }
        Value::I8(x) => {
            out.push(6);
            out.push(*x as u8)
        }
        Value::I16(x) => {
            out.push(7);
            out.extend_from_slice(&x.to_le_bytes())
        }
        Value::I32(x) => {
            out.push(8);
            out.extend_from_slice(&x.to_le_bytes())
        }
        Value::I64(x) => {
            out.push(9);
            out.extend_from_slice(&x.to_le_bytes())
        }
        Value::I128(x) => {
            out.push(10);
            out.extend_from_slice(&x.to_le_bytes())
        }
        Value::F32(x) => {
            out.push(11);
            out.extend_from_slice(&x.to_bits().to_le_bytes())
        }
        Value::F64(x) => {
            out.push(12);
            out.extend_from_slice(&x.to_bits().to_le_bytes())
        }
        Value::StringVal(s) => {
            out.push(13);
            put_str(s, out)
        }
        Value::Raw(b) => {
            out.push(14);
            out.extend_from_slice(&(b.len() as u32).to_le_bytes());
            out.extend_from_slice(b)
        }
    }
}

pub fn canon_arg(a: &Argument, out: &mut Vec<u8>) {
    out.extend_from_slice(format!("{:?}", a.type_info).as_bytes());
    out.push(0);
    put_opt_str(&a.name, out);
    put_opt_str(&a.unit, out);
    match &a.fixed_point {
        None => out.push(0),
        Some(fp) => {
            out.push(1);
            out.extend_from_slice(&fp.quantization.to_bits().to_le_bytes());
            match fp.offset {
                FixedPointValue::I32(v) => {
                    out.push(4);
                    out.extend_from_slice(&v.to_le_bytes())
                }
                FixedPointValue::I64(v) => {
                    out.push(8);
                    out.extend_from_slice(&v.to_le_bytes())
                }
            }
        }
    }
    canon_value(&a.value, out);
}

pub fn canon_msg(m: &Message, out: &mut Vec<u8>) {
    canon_storage(&m.storage_header, out);
    canon_std(&m.header, out);
    canon_ext(&m.extended_header, out);
    match &m.payload {
        PayloadContent::Verbose(args) => {
            out.push(b'V');
            out.extend_from_slice(&(args.len() as u32).to_le_bytes());
            for a in args {
                canon_arg(a, out);
            }
        }
        PayloadContent::NonVerbose(id, p) => {
            out.push(b'N');
            out.extend_from_slice(&id.to_le_bytes());
            out.extend_from_slice(&(p.len() as u32).to_le_bytes());
            out.extend_from_slice(p);
        }
        PayloadContent::ControlMsg(c, p) => {
            out.push(b'C');
            out.extend_from_slice(format!("{:?}", c).as_bytes());
            out.push(0);
            out.extend_from_slice(&(p.len() as u32).to_le_bytes());
            out.extend_from_slice(p);
        }
        PayloadContent::NetworkTrace(s) => {
            out.push(b'T');
            out.extend_from_slice(&(s.len() as u32).to_le_bytes());
            for x in s {
                out.extend_from_slice(&(x.len() as u32).to_le_bytes());
                out.extend_from_slice(x);
            }
        }
    }
}

pub fn canon_parsed(p: &ParsedMessage, out: &mut Vec<u8>) {
    match p {
        ParsedMessage::Item(m) => {
            out.push(b'I');
            canon_msg(m, out)
        }
        ParsedMessage::FilteredOut(n) => {
            out.push(b'F');
            out.extend_from_slice(&(*n as u64).to_le_bytes())
        }
        ParsedMessage::Invalid => out.push(b'X'),
    }
}

/// Result of one reader call / one parse, reduced to what the properties speak about: the value
/// (canonical, floats by bits) or the *variant* of the error (wording is not part of any property).
#[derive(Clone, Debug, PartialEq, Eq, Hash)]
pub enum Res {
    Msg(Vec<u8>),
    None,
    ErrIncomplete,
    ErrHickup,
    ErrUnrecoverable,
    Panic(String),
}

impl Res {
    pub fn short(&self) -> String {
        match self {
            Res::Msg(c) => {
                let tag = match c.first() {
                    Some(b'I') => "Item",
                    Some(b'F') => "FilteredOut",
                    Some(b'X') => "Invalid",
                    _ => "?",
                };
                format!("Ok(Some({}#{:016x}))", tag, crate::rng::Fnv::of(c))
            }
            Res::None => "Ok(None)".into(),
            Res::ErrIncomplete => "Err(IncompleteParse)".into(),
            Res::ErrHickup => "Err(ParsingHickup)".into(),
            Res::ErrUnrecoverable => "Err(Unrecoverable)".into(),
            Res::Panic(m) => format!("PANIC({})", m),
        }
    }
    pub fn is_err(&self) -> bool {
        matches!(self, Res::ErrIncomplete | Res::ErrHickup | Res::ErrUnrecoverable)
    }
    pub fn is_msg(&self) -> bool {
        matches!(self, Res::Msg(_))
    }
    pub fn is_panic(&self) -> bool {
        matches!(self, Res::Panic(_))
    }
}

pub fn err_res(e: &DltParseError) -> Res {
    match e {
        DltParseError::IncompleteParse { .. } => Res::ErrIncomplete,
        DltParseError::ParsingHickup(_) => Res::ErrHickup,
        DltParseError::Unrecoverable(_) => Res::ErrUnrecoverable,
    }
}

pub fn read_res(r: &Result<Option<ParsedMessage>, DltParseError>) -> Res {
    match r {
        Ok(Some(p)) => {
            let mut v = vec![];
            canon_parsed(p, &mut v);
            Res::Msg(v)
        }
        Ok(None) => Res::None,
        Err(e) => err_res(e),
    }
}
