//! Shared machinery: panic capture, violations, counters, the parallel seeded runner, replay
//! files, known findings and the evidence writer.

use crate::rng::splitmix64;
use serde_json::{json, Value as J};
use std::cell::RefCell;
use std::collections::{BTreeMap, HashSet};
use std::panic::{catch_unwind, AssertUnwindSafe};
use std::sync::atomic::{AtomicU64, Ordering};
use std::sync::Mutex;

pub const DEFAULT_SEED: u64 = 20260929;

thread_local! {
    static LAST_PANIC: RefCell<Option<String>> = const { RefCell::new(None) };
    static GUARD_DEPTH: std::cell::Cell<u32> = const { std::cell::Cell::new(0) };
}
/// panics of the harness itself (outside any `guarded` section)
pub static HARNESS_PANICS: AtomicU64 = AtomicU64::new(0);

/// Install a silent panic hook that remembers `file:line: message` per thread.
pub fn install_panic_hook() {
    std::panic::set_hook(Box::new(|info| {
        let loc = info
            .location()
            .map(|l| {
                let f = l.file();
                // keep paths stable: strip everything before "src/"
                let f = f.rfind("/src/").map(|i| &f[i + 1..]).unwrap_or(f);
                format!("{}:{}", f, l.line())
            })
            .unwrap_or_else(|| "?".into());
        let msg = if let Some(s) = info.payload().downcast_ref::<&str>() {
            s.to_string()
        } else if let Some(s) = info.payload().downcast_ref::<String>() {
            s.clone()
        } else {
            "?".into()
        };
        if GUARD_DEPTH.with(|d| d.get()) == 0 {
            // not inside a call into the crate under test: the harness itself is broken
            if HARNESS_PANICS.fetch_add(1, Ordering::SeqCst) < 5 {
                eprintln!("HARNESS-PANIC at {}: {}", loc, msg);
            }
        }
        LAST_PANIC.with(|p| *p.borrow_mut() = Some(format!("{} {}", loc, msg)));
    }));
}

/// Run `f`, turning a panic into Err("file:line message").
pub fn guarded<T>(f: impl FnOnce() -> T) -> Result<T, String> {
    GUARD_DEPTH.with(|d| d.set(d.get() + 1));
    let r = catch_unwind(AssertUnwindSafe(f));
    GUARD_DEPTH.with(|d| d.set(d.get() - 1));
    match r {
        Ok(v) => Ok(v),
        Err(_) => Err(LAST_PANIC.with(|p| p.borrow_mut().take()).unwrap_or_else(|| "? ?".into())),
    }
}

/// the `file:line` part of a captured panic
pub fn panic_site(p: &str) -> &str {
    p.split(' ').next().unwrap_or("?")
}

#[derive(Clone, Debug)]
pub struct Violation {
    /// clause id, e.g. "C07.c"
    pub clause: String,
    /// stable signature of the violation class (clause + call site / shape), used for
    /// minimisation ("same violation") and for matching known findings
    pub sig: String,
    pub detail: String,
}

impl Violation {
    pub fn new(clause: &str, class: &str, detail: String) -> Violation {
        Violation { clause: clause.to_string(), sig: format!("{}:{}", clause, class), detail }
    }
}

/// Counters and distinctness sets of one worker; merged across workers by summation / union, so
/// the totals are independent of the worker count.
#[derive(Default)]
pub struct Stats {
    pub c: BTreeMap<&'static str, u64>,
    pub distinct: HashSet<u64>,
    pub nontrivial: HashSet<u64>,
    pub triples: HashSet<u32>,
    pub hist: u64,
    /// wall-clock duration of the slowest single run in microseconds and its index (reported in
    /// the evidence as a distance-to-budget indicator; takes part in no verdict and no digest)
    pub slowest_us: u64,
    pub slowest_run: u64,
}

impl Stats {
    #[inline]
    pub fn add(&mut self, k: &'static str, n: u64) {
        *self.c.entry(k).or_insert(0) += n;
    }
    #[inline]
    pub fn inc(&mut self, k: &'static str) {
        self.add(k, 1)
    }
    pub fn get(&self, k: &str) -> u64 {
        self.c.get(k).copied().unwrap_or(0)
    }
    pub fn merge(&mut self, o: Stats) {
        for (k, v) in o.c {
            *self.c.entry(k).or_insert(0) += v;
        }
        self.distinct.extend(o.distinct);
        self.nontrivial.extend(o.nontrivial);
        self.triples.extend(o.triples);
        if o.slowest_us > self.slowest_us {
            self.slowest_us = o.slowest_us;
            self.slowest_run = o.slowest_run;
        }
        // order independent combination of per-run history hashes
        self.hist = self.hist.wrapping_add(o.hist);
    }
    /// fold one run's history hash in, order-independently
    pub fn fold_hist(&mut self, run: u64, h: u64) {
        self.hist = self.hist.wrapping_add(splitmix64(h ^ splitmix64(run)));
    }
}

pub struct RunResult {
    pub violations: Vec<Violation>,
    /// hash of the run's complete observable history (decisions, results)
    pub hist: u64,
}

#[derive(Clone, Copy, Debug, PartialEq, Eq)]
pub enum Tier {
    Quick,
    Thorough,
}
impl Tier {
    pub fn name(&self) -> &'static str {
        match self {
            Tier::Quick => "quick",
            Tier::Thorough => "thorough",
        }
    }
}

pub fn workers() -> usize {
    std::env::var("VERIF_WORKERS")
        .ok()
        .and_then(|s| s.parse().ok())
        .unwrap_or_else(|| std::thread::available_parallelism().map(|n| n.get()).unwrap_or(4))
        .max(1)
}

pub fn run_seed(seed: u64, tag: u64, run: u64) -> u64 {
    splitmix64(seed ^ splitmix64(tag) ^ splitmix64(run.wrapping_mul(0x9E37_79B9_7F4A_7C15)))
}

/// What a worker thread had executed (most recent last, at most 96 runs) before a run that failed,
/// keyed by (stage, run): the crate under test may keep state across calls (a cache, a
/// thread-local), and then a run's outcome is a function of that history, not of the run alone.
pub static FAIL_HISTORY: Mutex<Vec<((u64, u64), Vec<u64>)>> = Mutex::new(Vec::new());

pub fn fail_history(stage: u64, run: u64) -> Option<Vec<u64>> {
    FAIL_HISTORY.lock().unwrap().iter().find(|(k, _)| *k == (stage, run)).map(|(_, h)| h.clone())
}

/// Execute runs 0..n in parallel. `body(run_index, &mut Stats)` returns the run's result; failing
/// run indices are returned sorted, so the report does not depend on the worker count.
pub fn run_batch<F>(n: u64, body: F) -> (Stats, Vec<(u64, Vec<Violation>)>)
where
    F: Fn(u64, &mut Stats) -> RunResult + Sync,
{
    let next = AtomicU64::new(0);
    let total = Mutex::new(Stats::default());
    let fails: Mutex<Vec<(u64, Vec<Violation>)>> = Mutex::new(vec![]);
    let w = workers();
    std::thread::scope(|s| {
        for _ in 0..w {
            s.spawn(|| {
                let mut st = Stats::default();
                let mut local_fails = vec![];
                let mut recent: std::collections::VecDeque<u64> = std::collections::VecDeque::new();
                loop {
                    let base = next.fetch_add(64, Ordering::Relaxed);
                    if base >= n {
                        break;
                    }
                    crate::watch::note_progress(st.distinct.len() as u64, st.nontrivial.len() as u64);
                    for run in base..(base + 64).min(n) {
                        crate::watch::enter(run);
                        let t_run = std::time::Instant::now();
                        let r = match catch_unwind(AssertUnwindSafe(|| body(run, &mut st))) {
                            Ok(r) => r,
                            Err(_) => {
                                st.inc("harness_panics");
                                RunResult { violations: vec![], hist: 0 }
                            }
                        };
                        let us = t_run.elapsed().as_micros() as u64;
                        if us > st.slowest_us {
                            st.slowest_us = us;
                            st.slowest_run = run;
                        }
                        st.fold_hist(run, r.hist);
                        st.inc("runs");
                        if !r.violations.is_empty() {
                            // keep memory bounded when everything fails
                            if local_fails.len() < 2000 {
                                local_fails.push((run, r.violations));
                            }
                            if local_fails.len() <= 40 {
                                FAIL_HISTORY.lock().unwrap().push(((crate::watch::stage(), run), recent.iter().copied().collect()));
                            }
                            st.inc("runs_with_violation");
                        }
                        recent.push_back(run);
                        if recent.len() > 96 {
                            recent.pop_front();
                        }
                    }
                }
                crate::watch::retire();
                total.lock().unwrap().merge(st);
                fails.lock().unwrap().extend(local_fails);
            });
        }
    });
    let mut f = fails.into_inner().unwrap();
    f.sort_by_key(|x| x.0);
    (total.into_inner().unwrap(), f)
}

// ---------------------------------------------------------------------------------------------
// hex helpers and replay files
// ---------------------------------------------------------------------------------------------

pub fn hex(b: &[u8]) -> String {
    let mut s = String::with_capacity(b.len() * 2);
    for x in b {
        s.push_str(&format!("{:02x}", x));
    }
    s
}
pub fn unhex(s: &str) -> Vec<u8> {
    let b = s.as_bytes();
    (0..b.len() / 2)
        .map(|i| u8::from_str_radix(std::str::from_utf8(&b[2 * i..2 * i + 2]).unwrap_or("00"), 16).unwrap_or(0))
        .collect()
}
/// long media are stored run-length encoded as a list of "hex" | {"rep": "hex", "n": k}
pub fn bytes_to_json(b: &[u8]) -> J {
    if b.len() <= 4096 {
        return J::String(hex(b));
    }
    let mut parts: Vec<J> = vec![];
    let mut i = 0;
    let mut lit_start = 0;
    while i < b.len() {
        let mut j = i;
        while j < b.len() && b[j] == b[i] {
            j += 1;
        }
        if j - i >= 64 {
            if lit_start < i {
                parts.push(J::String(hex(&b[lit_start..i])));
            }
            parts.push(json!({"rep": hex(&b[i..i + 1]), "n": j - i}));
            lit_start = j;
        }
        i = j;
    }
    if lit_start < b.len() {
        parts.push(J::String(hex(&b[lit_start..])));
    }
    J::Array(parts)
}
pub fn bytes_from_json(v: &J) -> Vec<u8> {
    match v {
        J::String(s) => unhex(s),
        J::Array(a) => {
            let mut out = vec![];
            for p in a {
                match p {
                    J::String(s) => out.extend(unhex(s)),
                    J::Object(_) => {
                        let r = unhex(p["rep"].as_str().unwrap_or(""));
                        let n = p["n"].as_u64().unwrap_or(0) as usize;
                        for _ in 0..n {
                            out.extend_from_slice(&r);
                        }
                    }
                    _ => {}
                }
            }
            out
        }
        _ => vec![],
    }
}

pub fn verif_dir() -> std::path::PathBuf {
    std::env::var("VERIF_DIR").map(Into::into).unwrap_or_else(|_| "/verif".into())
}

/// Write a replay file and return its path.
pub fn write_replay(prop: &str, body: &J) -> String {
    let s = serde_json::to_string_pretty(body).unwrap();
    let h = crate::rng::Fnv::of(s.as_bytes());
    let dir = verif_dir().join("replays").join(prop);
    let _ = std::fs::create_dir_all(&dir);
    let path = dir.join(format!("{:016x}.json", h));
    std::fs::write(&path, s).expect("write replay file");
    path.to_string_lossy().into_owned()
}

// ---------------------------------------------------------------------------------------------
// known findings (read-only at run time)
// ---------------------------------------------------------------------------------------------

#[derive(Clone, Debug)]
pub struct Known {
    pub property: String,
    pub status: String,
    pub signature: String,
    pub what: String,
}

pub fn load_known() -> Vec<Known> {
    let p = verif_dir().join("known_findings.json");
    let Ok(s) = std::fs::read_to_string(&p) else { return vec![] };
    let Ok(v) = serde_json::from_str::<J>(&s) else {
        eprintln!("HARNESS-ERROR: known_findings.json does not parse");
        std::process::exit(2);
    };
    v["findings"]
        .as_array()
        .map(|a| {
            a.iter()
                .map(|f| Known {
                    property: f["property"].as_str().unwrap_or("").into(),
                    status: f["status"].as_str().unwrap_or("").into(),
                    signature: f["signature"].as_str().unwrap_or("").into(),
                    what: f["what"].as_str().unwrap_or("").into(),
                })
                .collect()
        })
        .unwrap_or_default()
}

/// A violation is suppressed only by a `known` entry (never by a `fixed` one) of the same
/// property whose signature equals the violation's signature.
pub fn known_match<'a>(known: &'a [Known], prop: &str, sig: &str) -> Option<&'a Known> {
    known.iter().find(|k| k.status == "known" && k.property == prop && k.signature == sig)
}

// ---------------------------------------------------------------------------------------------
// evidence
// ---------------------------------------------------------------------------------------------

fn self_ms(us: u64) -> f64 {
    (us as f64 / 10.0).round() / 100.0
}

pub struct Evidence {
    pub prop: &'static str,
    pub tier: Tier,
    pub seed: u64,
    pub level: &'static str,
    pub rule: String,
    pub samples: Vec<J>,
    pub assumptions: Vec<String>,
    pub real_vs_stub: J,
    pub extra: BTreeMap<String, J>,
    pub fault_kinds: Vec<&'static str>,
    pub harness_probes: Vec<&'static str>,
    pub crate_probes: Vec<&'static str>,
    pub step_keys: Vec<&'static str>,
    pub exhaustive: bool,
}

pub fn real_vs_stub_default() -> J {
    json!({
        "real": [
            "dlt_core::{parse, read, stream, statistics, fibex, dlt (writer)} compiled from /repo working tree",
            "nom", "memchr", "quick-xml", "std::io::BufReader", "futures::io::BufReader + ReadExact",
            "kernel file system under a private directory (FIBEX only)"
        ],
        "stub_or_simulator_owned": [
            "byte sources (ScriptedRead / ScriptedPoll)", "executor and wakers", "medium and its faults",
            "producer workload", "foreign-ECU dialect producer", "streaming consumer loop", "FIBEX step clock"
        ],
        "not_simulated": ["allocation failure", "real sockets / files for DLT streams", "wall clock"]
    })
}

impl Evidence {
    pub fn write(&self, st: &Stats, wall_s: f64, violations: usize, known: usize) -> Result<(), String> {
        let evaluations = st.get("evaluations").max(st.get("runs"));
        let runs = st.get("runs");
        let mut faults = serde_json::Map::new();
        for k in &self.fault_kinds {
            faults.insert((*k).to_string(), json!(st.get(k)));
        }
        let mut probes = serde_json::Map::new();
        for k in self.harness_probes.iter().chain(self.crate_probes.iter()) {
            probes.insert((*k).to_string(), json!(st.get(k)));
        }
        let steps: u64 = self.step_keys.iter().map(|k| st.get(k)).sum();
        let mut counters = serde_json::Map::new();
        for (k, v) in &st.c {
            counters.insert((*k).to_string(), json!(v));
        }
        let per_hour = |n: u64| if wall_s > 0.0 { (n as f64 / wall_s * 3600.0) as u64 } else { 0 };
        let mut cov = serde_json::Map::new();
        cov.insert("evaluations".into(), json!(evaluations));
        cov.insert("distinct_nontrivial".into(), json!(st.nontrivial.len()));
        cov.insert("rule".into(), json!(self.rule));
        cov.insert("samples".into(), J::Array(self.samples.clone()));
        cov.insert("exhaustive".into(), json!(self.exhaustive));
        cov.insert("simulated_runs".into(), json!(runs));
        cov.insert("runs_per_hour".into(), json!(per_hour(runs)));
        cov.insert("seeds_per_hour".into(), json!(per_hour(runs)));
        cov.insert(
            "simulated_time".into(),
            json!({"unit": "logical steps (source calls, polls, wake events, parser calls); the system has no clock", "steps": steps}),
        );
        cov.insert("faults_fired".into(), J::Object(faults));
        cov.insert("distinct_histories".into(), json!(st.distinct.len()));
        cov.insert("distinct_coverage_triples".into(), json!(st.triples.len()));
        cov.insert("probes".into(), J::Object(probes));
        cov.insert("counters".into(), J::Object(counters));
        cov.insert("history_digest".into(), json!(format!("{:016x}", st.hist)));
        cov.insert("real_vs_stub".into(), self.real_vs_stub.clone());
        cov.insert("known_findings_reported".into(), json!(known));
        cov.insert("workers".into(), json!(workers()));
        cov.insert(
            "slowest_single_run".into(),
            json!({"wall_ms": self_ms(st.slowest_us), "run_index": st.slowest_run, "note": "wall clock, for orientation only: the CPU budget after which a run counts as not ending is VERIF_HANG_CPU_S (default 60 s)"}),
        );
        for (k, v) in &self.extra {
            cov.insert(k.clone(), v.clone());
        }
        let ev = json!({
            "property_id": self.prop,
            "tier": self.tier.name(),
            "seed": self.seed,
            "level": self.level,
            "coverage": J::Object(cov),
            "assumptions": self.assumptions,
            "wall_s": (wall_s * 1000.0).round() / 1000.0,
            "violations": violations,
        });
        let dir = verif_dir().join("evidence");
        let _ = std::fs::create_dir_all(&dir);
        let path = dir.join(format!("{}.json", self.prop));
        std::fs::write(&path, serde_json::to_string_pretty(&ev).unwrap()).map_err(|e| e.to_string())?;
        // a harness-driven probe stuck at zero is a harness error
        for k in &self.harness_probes {
            if st.get(k) == 0 {
                return Err(format!("harness-driven probe '{}' stayed at zero", k));
            }
        }
        if st.nontrivial.len() < 2 {
            return Err("fewer than 2 distinct non-trivial cases".into());
        }
        Ok(())
    }
}

/// Outcome of one check invocation.
pub struct Report {
    pub prop: &'static str,
    pub lines: Vec<String>,
    pub violations: usize,
    pub known: usize,
    pub harness_error: Option<String>,
}

impl Report {
    pub fn exit_code(&self) -> i32 {
        // a confirmed violation (replayed in a fresh process) wins over a harness problem
        if self.violations > 0 {
            1
        } else if self.harness_error.is_some() {
            2
        } else {
            0
        }
    }
}
