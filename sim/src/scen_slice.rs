//! S-SLICE — C03, C04, C05, C06, C16: the slice parsers on a growing buffer fed by a scripted
//! source from a medium with stored-byte faults; resynchronisation, alignment, salvage.
//!
//! Consumers (DESIGN.md 3.7): SC streaming slice consumer, IX indexer, NV non-verbose decode
//! stage, SV salvage pass. The loops are harness code; every parsing decision is the crate's.

use crate::case::{GenInfo, StreamCase};
use crate::core::{guarded, panic_site, run_seed, RunResult, Stats, Tier, Violation};
use crate::faults::{build_medium, junk_rec, Confine, FaultPlan, Medium};
use crate::gen::{gen_foreign_record, gen_record, Rec, Swarm};
use crate::model::*;
use crate::rng::{Fnv, Rng};
use crate::scen_common::{draw_filter};
use crate::source::{Core, Dec, Frag, Policy, ScriptedRead};
use byteorder::{BigEndian, LittleEndian};
use dlt_core::dlt::*;
use dlt_core::filtering::ProcessedDltFilterConfig;
use dlt_core::parse::*;
use std::cell::RefCell;
use std::io::Read;
use std::rc::Rc;

#[derive(Clone, Copy, PartialEq, Eq, Debug)]
pub enum Focus {
    C03,
    C04,
    C05,
    C06,
    C16,
}
impl Focus {
    pub fn id(&self) -> &'static str {
        match self {
            Focus::C03 => "C03",
            Focus::C04 => "C04",
            Focus::C05 => "C05",
            Focus::C06 => "C06",
            Focus::C16 => "C16",
        }
    }
    pub fn tag(&self) -> u64 {
        match self {
            Focus::C03 => 0xC03,
            Focus::C04 => 0xC04,
            Focus::C05 => 0xC05,
            Focus::C06 => 0xC06,
            Focus::C16 => 0xC16,
        }
    }
}

// ---------------------------------------------------------------------------------------------
// generation
// ---------------------------------------------------------------------------------------------

fn pattern_positions(b: &[u8]) -> Vec<usize> {
    let mut v = vec![];
    let mut i = 0;
    while i + 4 <= b.len() {
        if b[i..i + 4] == PATTERN {
            v.push(i);
        }
        i += 1;
    }
    v
}

pub fn generate(focus: Focus, seed: u64, run: u64, _tier: Tier, st: &mut Stats) -> StreamCase {
    let s = run_seed(seed, focus.tag(), run);
    let mut rw = Rng::fork(s, 1);
    let mut rf = Rng::fork(s, 2);
    let mut rs = Rng::fork(s, 3);
    let mode: &str = match focus {
        Focus::C03 => *rw.pick(&["any", "any", "any", "any", "any", "any", "payload", "junk", "clean", "soup", "dialect"]),
        Focus::C04 => *rw.pick(&["payload", "payload", "payload", "payload", "payload", "any", "any", "any", "junk", "dialect"]),
        Focus::C05 => *rw.pick(&["cut", "cut", "clean"]),
        Focus::C06 => *rw.pick(&["junk", "junk", "junk", "junk", "any"]),
        Focus::C16 => *rw.pick(&["any", "any", "any", "dialect", "dialect", "payload"]),
    };
    // 1 run in 40 (C03, C16): a bulk string of an amplification-friendly length, hit by F-AMP alone
    let mode: &str = if matches!(focus, Focus::C03 | Focus::C16) && rw.chance(1, 40) { "amp" } else { mode };
    let storage = match mode {
        "junk" => true,
        _ => {
            if focus == Focus::C06 {
                true
            } else {
                rw.bool()
            }
        }
    };
    let mut swarm = Swarm::draw(&mut rw, storage);
    if mode == "junk" {
        // C06.c's precondition: the pattern occurs at record starts only
        swarm.embed_magic_pct = 0;
    }
    let mut notes = vec![];
    let mut aux: Vec<u64> = vec![rs.next_u64() >> 16];
    let medium: Medium;
    match mode {
        "cut" => {
            // one well-formed record, every cut position (enumerated in execute)
            let mut sw = swarm.clone();
            if rw.chance(1, 40) {
                sw.size_w = [0, 0, 0, 1]; // up to ~64 KiB
            }
            let rec = if rw.chance(1, 12) { gen_foreign_record(&mut rw, storage) } else { gen_record(&mut rw, &sw) };
            let mut recs = vec![rec];
            medium = build_medium(&mut recs, &mut rf, &FaultPlan::none(), st);
            aux.clear();
        }
        "soup" => {
            let n = match rf.below(4) {
                0 => rf.below(8),
                1 => rf.below(64),
                _ => rf.below(2000),
            };
            let mut bytes = rf.bytes(n);
            if storage && n >= 4 && rf.bool() {
                bytes[..4].copy_from_slice(b"DLT\x01");
            } else if rf.chance(1, 6) {
                let lit = crate::dict::blob(&mut rf);
                let k = lit.len().min(n);
                bytes[..k].copy_from_slice(&lit[..k]);
            }
            st.inc("medium_soup");
            medium = Medium { bytes, aligned: false, notes: vec!["arbitrary bytes".into()], ..Default::default() };
        }
        _ => {
            let max = match mode {
                "dialect" => 6,
                _ => 12,
            };
            let n = match rw.below(8) {
                0 => 1,
                1 | 2 => 2,
                _ => 1 + rw.below(max),
            };
            // long chains of small records now and then (what is cheap per record may not be per chain)
            let long_chain = matches!(mode, "junk" | "any" | "clean") && rw.chance(1, 30);
            let n = if long_chain { 20 + rw.below(60) } else { n };
            let mut swarm = swarm.clone();
            if long_chain {
                swarm.size_w = [6, 1, 0, 0];
                swarm.max_args = 2;
            }
            let swarm = swarm;
            let foreign_pct = match mode {
                "dialect" => 100,
                "any" => 8,
                _ => 0,
            };
            let mut recs: Vec<Rec> = (0..n)
                .map(|_| if foreign_pct > 0 && rw.chance(foreign_pct, 100) { gen_foreign_record(&mut rw, storage) } else { gen_record(&mut rw, &swarm) })
                .collect();
            if mode == "amp" {
                recs.truncate(2);
                let at = rw.below(recs.len() + 1);
                recs.insert(at, crate::gen::amp_record(&mut rw, &swarm));
            }
            for rec in &recs {
                st.inc(match rec.kind {
                    "verbose" => "rec_verbose",
                    "nonverbose" => "rec_nonverbose",
                    "nonverbose_noext" => "rec_nonverbose_noext",
                    "control" => "rec_control",
                    "nettrace" => "rec_nettrace",
                    "foreign" => "rec_foreign",
                    _ => "rec_other",
                });
            }
            let plan = match mode {
                "amp" => FaultPlan::only(crate::faults::F_AMP),
                "clean" | "dialect" => {
                    if mode == "dialect" && rf.chance(1, 3) {
                        FaultPlan::draw(&mut rf, Confine::Payload, storage)
                    } else {
                        FaultPlan::none()
                    }
                }
                "junk" => {
                    // junk between (and before, and after) records, nothing else
                    let k = 1 + rf.below(4);
                    for _ in 0..k {
                        let at = rf.below(recs.len() + 1);
                        let j = if rf.chance(1, 8) {
                            // the junk is a complete, well-formed record WITHOUT storage header (a
                            // live capture merged into a stored trace), ids from the same swarm
                            let mut sw = swarm.clone();
                            sw.storage = false;
                            sw.size_w = [4, 2, 0, 0];
                            sw.dup_pct = 0;
                            let mut b = gen_record(&mut rf, &sw);
                            b.kind = "junk";
                            b.regs = vec![crate::gen::Reg { start: 0, end: b.bytes.len(), kind: crate::gen::Region::Junk }];
                            st.inc("junk_is_bare_record");
                            b
                        } else {
                            junk_rec(&mut rf)
                        };
                        if !j.bytes.is_empty() {
                            st.inc("F-JUNK");
                            notes.push(format!("F-JUNK {} bytes before element {}", j.bytes.len(), at));
                        }
                        recs.insert(at, j);
                    }
                    FaultPlan::none()
                }
                "payload" => {
                    let mut p = FaultPlan::draw(&mut rf, Confine::Payload, storage);
                    if p.count == 0 {
                        p.count = 1;
                    }
                    p
                }
                _ => FaultPlan::draw(&mut rf, Confine::Any, storage),
            };
            let mut m = build_medium(&mut recs, &mut rf, &plan, st);
            if mode == "payload" && rf.chance(1, 4) {
                // trailing bytes after the last record (what today's defect depends on)
                let n = 1 + rf.below(40);
                let t = rf.bytes(n);
                m.bytes.extend(t);
                m.notes.push(format!("{} trailing bytes", n));
            }
            if mode == "junk" {
                // pattern occurrences must be exactly the record starts; repair junk, else mark
                let starts: Vec<usize> = recs.iter().zip(m.starts.iter()).filter(|(r, _)| r.kind != "junk").map(|(_, s)| *s).collect();
                for p in pattern_positions(&m.bytes) {
                    if !starts.contains(&p) {
                        // is it (partly) in junk? then patch a junk byte
                        let mut patched = false;
                        for (r, s0) in recs.iter().zip(m.starts.iter()) {
                            if r.kind == "junk" {
                                for q in p..p + 4 {
                                    if q >= *s0 && q < *s0 + r.bytes.len() && !patched {
                                        m.bytes[q] ^= 0x20;
                                        patched = true;
                                    }
                                }
                            }
                        }
                        if !patched {
                            m.aligned = false; // pattern inside a record body: run is not judged
                        }
                    }
                }
                if pattern_positions(&m.bytes) != starts {
                    m.aligned = false;
                }
                // aux: record starts (element starts of real records) for the oracle
                aux.push(starts.len() as u64);
                for s0 in &starts {
                    aux.push(*s0 as u64);
                }
                if !m.aligned {
                    st.inc("junk_run_discarded");
                    aux[1] = u64::MAX; // marks "do not judge C06.c"
                }
            }
            if mode == "clean" {
                aux.push(m.starts.len() as u64);
                for s0 in &m.starts {
                    aux.push(*s0 as u64);
                }
            }
            medium = m;
        }
    }
    notes.extend(medium.notes.iter().cloned());
    let mut policy = Policy::draw(&mut rs, medium.boundaries.clone(), false);
    policy.intr_pct = 0;
    if medium.bytes.len() > 8192 {
        policy.frag = if rs.bool() { Frag::Uniform(4096) } else { Frag::Full };
    }
    if rs.chance(1, 10) && mode != "cut" {
        policy.eof_at = Some(rs.below(medium.bytes.len() + 1));
    }
    let filter = match mode {
        "cut" => draw_filter(&mut rw, swarm.id_alphabet, 30),
        _ => draw_filter(&mut rw, swarm.id_alphabet, 50),
    };
    StreamCase {
        prop: focus.id().into(),
        mode: mode.into(),
        storage,
        medium: medium.bytes,
        filter,
        aux,
        gen: Some(GenInfo { policy, sched_seed: rs.next_u64(), co_policies: vec![] }),
        notes,
        seed,
        run,
        ..Default::default()
    }
}

// ---------------------------------------------------------------------------------------------
// helpers for the oracles
// ---------------------------------------------------------------------------------------------

fn utf8_ok(m: &Message) -> Option<String> {
    let chk = |s: &str, what: &str| -> Option<String> {
        if std::str::from_utf8(s.as_bytes()).is_err() {
            Some(format!("{} holds invalid UTF-8: {:02x?}", what, s.as_bytes()))
        } else {
            None
        }
    };
    if let Some(sh) = &m.storage_header {
        if let Some(e) = chk(&sh.ecu_id, "storage ecu id") {
            return Some(e);
        }
    }
    if let Some(id) = &m.header.ecu_id {
        if let Some(e) = chk(id, "header ecu id") {
            return Some(e);
        }
    }
    if let Some(x) = &m.extended_header {
        if let Some(e) = chk(&x.application_id, "application id").or_else(|| chk(&x.context_id, "context id")) {
            return Some(e);
        }
    }
    if let PayloadContent::Verbose(args) = &m.payload {
        for a in args {
            if let Some(n) = &a.name {
                if let Some(e) = chk(n, "argument name") {
                    return Some(e);
                }
            }
            if let Some(n) = &a.unit {
                if let Some(e) = chk(n, "argument unit") {
                    return Some(e);
                }
            }
            if let Value::StringVal(s) = &a.value {
                if let Some(e) = chk(s, "string value") {
                    return Some(e);
                }
            }
        }
    }
    None
}

/// C03.b / C03.c on one returned item
fn use_item(m: &Message, v: &mut Vec<Violation>, st: &mut Stats) {
    st.inc("items_used");
    match guarded(|| {
        let b = m.as_bytes();
        let l = m.byte_len();
        let mut invalid = None;
        if let PayloadContent::Verbose(args) = &m.payload {
            for (i, a) in args.iter().enumerate() {
                let _ = a.len();
                let _ = a.as_bytes::<BigEndian>();
                let _ = a.as_bytes::<LittleEndian>();
                if !a.valid() && invalid.is_none() {
                    invalid = Some(i);
                }
            }
        }
        (b.len(), l, invalid)
    }) {
        Err(p) => v.push(Violation::new("C03.b", &format!("panic@{}", panic_site(&p)), format!("using a returned message panicked: {}", p))),
        Ok((_, _, Some(i))) => v.push(Violation::new("C03.b", "argument-not-valid", format!("argument {} of a returned message fails Argument::valid()", i))),
        Ok(_) => {}
    }
    if let Some(e) = utf8_ok(m) {
        v.push(Violation::new("C03.c", "invalid-utf8", e));
    }
}

fn gen_signal_types(r: &mut Rng) -> Vec<TypeInfo> {
    let n = r.below(8);
    (0..n)
        .map(|_| {
            let kind = match r.below(11) {
                0 => TypeInfoKind::Bool,
                1 => TypeInfoKind::Signed(*r.pick(&[TypeLength::BitLength8, TypeLength::BitLength16, TypeLength::BitLength32, TypeLength::BitLength64, TypeLength::BitLength128])),
                2 => TypeInfoKind::Unsigned(*r.pick(&[TypeLength::BitLength8, TypeLength::BitLength16, TypeLength::BitLength32, TypeLength::BitLength64, TypeLength::BitLength128])),
                3 => TypeInfoKind::Float(FloatWidth::Width32),
                4 => TypeInfoKind::Float(FloatWidth::Width64),
                5 => TypeInfoKind::SignedFixedPoint(if r.bool() { FloatWidth::Width32 } else { FloatWidth::Width64 }),
                6 => TypeInfoKind::UnsignedFixedPoint(if r.bool() { FloatWidth::Width32 } else { FloatWidth::Width64 }),
                7 | 8 => TypeInfoKind::StringType,
                _ => TypeInfoKind::Raw,
            };
            TypeInfo { kind, coding: if r.bool() { StringCoding::ASCII } else { StringCoding::UTF8 }, has_variable_info: false, has_trace_info: false }
        })
        .collect()
}

/// NV stage (C03.a): construct_arguments and fixed-size string extraction never panic
fn nv_stage(m: &Message, r: &mut Rng, v: &mut Vec<Violation>, st: &mut Stats) {
    let (payload, big): (&[u8], bool) = match &m.payload {
        PayloadContent::NonVerbose(_, p) => (p, m.header.endianness == Endianness::Big),
        PayloadContent::ControlMsg(_, p) => (p, m.header.endianness == Endianness::Big),
        _ => return,
    };
    let types = gen_signal_types(r);
    let e = if big { Endianness::Big } else { Endianness::Little };
    st.inc("nv_construct_calls");
    match guarded(|| construct_arguments(e, &types, payload)) {
        Err(p) => v.push(Violation::new("C03.a", &format!("panic@{}", panic_site(&p)), format!("construct_arguments({:?}, {:?}, {} bytes) panicked: {}", e, types, payload.len(), p))),
        Ok(Ok(args)) => {
            st.inc("nv_construct_ok");
            for a in &args {
                if let Err(p) = guarded(|| {
                    let _ = a.len();
                    let _ = a.as_bytes::<BigEndian>();
                    a.valid()
                }) {
                    v.push(Violation::new("C03.b", &format!("panic@{}", panic_site(&p)), format!("using a constructed argument panicked: {}", p)));
                }
            }
        }
        Ok(Err(_)) => st.inc("nv_construct_err"),
    }
    for _ in 0..3 {
        let size = match r.below(5) {
            0 => r.below(5),
            1 => payload.len(),
            2 => payload.len().saturating_sub(1),
            3 => payload.len() + 1 + r.below(3),
            _ => r.below(65536),
        };
        let off = if payload.is_empty() { 0 } else { r.below(payload.len() + 1) };
        st.inc("nv_string_calls");
        match guarded(|| dlt_zero_terminated_string(&payload[off..], size).map(|(rest, s)| (rest.len(), std::str::from_utf8(s.as_bytes()).is_ok()))) {
            Err(p) => v.push(Violation::new("C03.a", &format!("panic@{}", panic_site(&p)), format!("dlt_zero_terminated_string({} bytes, {}) panicked: {}", payload.len() - off, size, p))),
            Ok(Ok((_, false))) => v.push(Violation::new("C03.c", "invalid-utf8", format!("dlt_zero_terminated_string({} bytes, {}) returned invalid UTF-8", payload.len() - off, size))),
            _ => {}
        }
    }
}

/// C16.a / C16.b on one item; returns the bytes if the item satisfies the length precondition
fn salvage_item(m: &Message, storage: bool, v: &mut Vec<Violation>, st: &mut Stats) -> Option<Vec<u8>> {
    let r = guarded(|| m.as_bytes());
    let Ok(b) = r else { return None }; // C03.b's business
    // "the length its own header declares": read from the header FIELDS of the parsed message
    // (fixed part + optional fields present + extended header + payload length), not from a
    // length function of the crate — a writer that repairs a stale length, and reports the
    // repaired one, must not slip a message into the premise that its header does not cover
    let h = &m.header;
    let declared = 4
        + if h.ecu_id.is_some() { 4 } else { 0 }
        + if h.session_id.is_some() { 4 } else { 0 }
        + if h.timestamp.is_some() { 4 } else { 0 }
        + if h.has_extended_header { 10 } else { 0 }
        + h.payload_length as usize;
    let expect = if storage { 16 } else { 0 } + declared;
    if b.len() != expect {
        st.inc("salvage_precondition_fails");
        return None;
    }
    st.inc("salvage_checks");
    // reach probe: a float whose bit pattern a normalising writer would not reproduce
    if let PayloadContent::Verbose(args) = &m.payload {
        if args.iter().any(|a| match &a.value {
            Value::F32(x) => x.is_nan() && x.to_bits() & 0x0040_0000 == 0,
            Value::F64(x) => x.is_nan() && x.to_bits() & 0x0008_0000_0000_0000 == 0,
            _ => false,
        }) {
            st.inc("salvage_signalling_nan");
        }
    }
    let kind = match &m.payload {
        PayloadContent::Verbose(_) => "verbose",
        PayloadContent::NonVerbose(..) => "nonverbose",
        PayloadContent::ControlMsg(..) => "control",
        PayloadContent::NetworkTrace(_) => "nettrace",
    };
    let end = if m.header.endianness == Endianness::Big { "BE" } else { "LE" };
    match guarded(|| dlt_message(&b, None, storage).map(|(rest, pm)| (rest.len(), pm))) {
        Err(p) => v.push(Violation::new("C16.a", &format!("panic@{}", panic_site(&p)), format!("parsing the re-serialisation panicked: {}", p))),
        Ok(Err(e)) => v.push(Violation::new("C16.a", &format!("reparse-fails/{}/{}", kind, end), format!("re-serialised {} {} message ({} bytes) does not parse back: {:?}", end, kind, b.len(), e))),
        Ok(Ok((rest, ParsedMessage::Item(m2)))) => {
            let (mut c1, mut c2) = (vec![], vec![]);
            canon_msg(m, &mut c1);
            canon_msg(&m2, &mut c2);
            if rest != 0 {
                v.push(Violation::new("C16.a", &format!("leftover/{}/{}", kind, end), format!("parsing the re-serialisation leaves {} bytes", rest)));
            } else if c1 != c2 {
                v.push(Violation::new("C16.a", &format!("message-differs/{}/{}", kind, end), format!("re-parsed message differs: {:?} vs {:?}", m, m2)));
            } else {
                match guarded(|| m2.as_bytes()) {
                    Ok(b2) if b2 == b => {}
                    Ok(_) => v.push(Violation::new("C16.b", &format!("bytes-differ/{}/{}", kind, end), "serialising the re-parsed message gives different bytes".into())),
                    Err(p) => v.push(Violation::new("C16.b", &format!("panic@{}", panic_site(&p)), format!("serialising again panicked: {}", p))),
                }
            }
        }
        Ok(Ok((_, other))) => v.push(Violation::new("C16.a", &format!("not-an-item/{}/{}", kind, end), format!("parsing the re-serialisation returned {:?}", other))),
    }
    Some(b)
}

// ---------------------------------------------------------------------------------------------
// execution
// ---------------------------------------------------------------------------------------------

pub struct Exec {
    pub violations: Vec<Violation>,
    pub hist: u64,
    pub taken: Vec<Dec>,
    pub nontrivial: bool,
    pub key: u64,
}

struct Sc<'a> {
    storage: bool,
    filter: Option<&'a ProcessedDltFilterConfig>,
    /// resync policy on a hard parse error: true = skip by the declared length, false = pattern
    declared_skip: bool,
    buf: Vec<u8>,
    pos: usize,
    /// (position, consumed, canonical item) of every Ok
    oks: Vec<(usize, usize, Vec<u8>)>,
    items: Vec<Message>,
    /// positions at which a verdict other than Incomplete was obtained
    verdict_at: Vec<usize>,
    stopped: bool,
    h: Fnv,
    /// search comparisons made on buffers longer than 4 KiB (bounded per run: the naive search is slow)
    big_searches: u32,
}

/// record start the parser will look at from `from` (independent: naive search / identity)
fn record_start(buf: &[u8], from: usize, storage: bool) -> Option<usize> {
    if storage {
        naive_find(&buf[from..]).map(|n| from + n)
    } else {
        Some(from)
    }
}

impl<'a> Sc<'a> {
    /// parse as far as the buffer allows; evaluates C04.a-c, C03.a, C05.d, C06.a on the way
    fn pump(&mut self, focus: Focus, clean_starts: Option<&[usize]>, clean_total: usize, v: &mut Vec<Violation>, st: &mut Stats) {
        let sl = if self.storage { 16 } else { 0 };
        loop {
            if self.stopped || self.pos > self.buf.len() {
                return;
            }
            let input = &self.buf[self.pos..];
            // C06.a on every buffer the consumer holds
            let big = input.len() > 4096;
            if self.storage && (focus == Focus::C06 || focus == Focus::C03) && (!big || (self.big_searches < 6 && input.len() <= 300_000)) {
                if big {
                    self.big_searches += 1;
                    st.inc("search_calls_big_buffer");
                }
                st.inc("search_calls");
                let exp = naive_find(input);
                match guarded(|| forward_to_next_storage_header(input).map(|(n, rest)| (n, rest.len(), rest.as_ptr() as usize))) {
                    Err(p) => v.push(Violation::new("C03.a", &format!("panic@{}", panic_site(&p)), format!("forward_to_next_storage_header panicked: {}", p))),
                    Ok(got) => {
                        let ok = match (exp, got) {
                            (None, None) => true,
                            (Some(e), Some((n, rl, rp))) => n as usize == e && rl == input.len() - e && rp == input.as_ptr() as usize + e,
                            _ => false,
                        };
                        if !ok {
                            v.push(Violation::new("C06.a", "search-differs", format!("forward_to_next_storage_header on {} bytes: got {:?}, first pattern at {:?}", input.len(), got.map(|g| (g.0, g.1)), exp)));
                        }
                        if exp.map_or(false, |e| e > 0) {
                            st.inc("search_skipped_junk");
                        }
                        if exp.is_none() && input.len() >= 3 && input.ends_with(b"DLT") {
                            st.inc("search_partial_pattern_at_end");
                        }
                    }
                }
            }
            // other entry points on the same bytes in between, on the same thread (a viewer that
            // indexes, searches and parses the same buffer): results are not judged here, but the
            // call that follows must not be influenced by them, and none of them may panic (C03.a)
            if (self.pos + self.buf.len()) % 8 == 3 {
                st.inc("interleaved_other_entry_points");
                if let Err(p) = guarded(|| {
                    let _ = dlt_consume_msg(input);
                    let _ = dlt_message(input, self.filter, !self.storage);
                    let _ = skip_storage_header(input);
                    let _ = forward_to_next_storage_header(input);
                }) {
                    v.push(Violation::new("C03.a", &format!("panic@{}", panic_site(&p)), format!("an entry point called in between panicked at buffer offset {}: {}", self.pos, p)));
                }
            }
            st.inc("parse_calls");
            let res = guarded(|| dlt_message(input, self.filter, self.storage));
            let res = match res {
                Err(p) => {
                    v.push(Violation::new("C03.a", &format!("panic@{}", panic_site(&p)), format!("dlt_message(filter={}, storage={}) panicked at buffer offset {}: {}", self.filter.is_some(), self.storage, self.pos, p)));
                    if focus == Focus::C06 {
                        // a parser that panics on the way through junk recovers nothing behind it
                        v.push(Violation::new("C06.c", &format!("panic@{}", panic_site(&p)), format!("the stream is not recovered: dlt_message(storage=true) panicked at buffer offset {} with {} bytes buffered: {}", self.pos, self.buf.len(), p)));
                    }
                    self.stopped = true;
                    return;
                }
                Ok(r) => r,
            };
            // C05.d: on a clean stream, a proper prefix of the next record must be "incomplete"
            if let Some(starts) = clean_starts {
                if let Ok(i) = starts.binary_search(&self.pos) {
                    let end = starts.get(i + 1).copied().unwrap_or(clean_total);
                    let have = self.buf.len() - self.pos;
                    if have < end - self.pos {
                        st.inc("dynamic_prefix_verdicts");
                        match &res {
                            Err(DltParseError::IncompleteParse { needed }) => {
                                if let Some(n) = needed {
                                    st.inc("incomplete_with_hint");
                                    if n.get() > end - self.pos - have {
                                        v.push(Violation::new("C05.d", "hint-too-large", format!("record at {}: have {} of {} bytes, hint says {} more", self.pos, have, end - self.pos, n)));
                                    }
                                }
                            }
                            Ok(_) => v.push(Violation::new("C05.d", "message-from-proper-prefix", format!("record at {}: have {} of {} bytes but the parser returned Ok", self.pos, have, end - self.pos))),
                            Err(e) => v.push(Violation::new("C05.d", "hard-error-on-proper-prefix", format!("record at {}: have {} of {} bytes but the parser returned {:?}", self.pos, have, end - self.pos, e))),
                        }
                    }
                }
            }
            match res {
                Ok((rest, pm)) => {
                    let consumed = input.len() - rest.len();
                    self.verdict_at.push(self.pos);
                    // C04.a: rest is a strict suffix of the input
                    let is_suffix = rest.as_ptr() as usize + rest.len() == input.as_ptr() as usize + input.len() && rest.len() <= input.len();
                    let tag = match &pm {
                        ParsedMessage::Item(m) => match &m.payload {
                            PayloadContent::Verbose(_) => "Item/verbose",
                            PayloadContent::NonVerbose(..) => "Item/nonverbose",
                            PayloadContent::ControlMsg(..) => "Item/control",
                            PayloadContent::NetworkTrace(_) => "Item/nettrace",
                        },
                        ParsedMessage::FilteredOut(_) => "FilteredOut",
                        ParsedMessage::Invalid => "Invalid",
                    };
                    if !is_suffix || rest.len() >= input.len() {
                        v.push(Violation::new("C04.a", &format!("not-a-strict-suffix/{}", tag), format!("at {}: input {} bytes, rest {} bytes, suffix={}", self.pos, input.len(), rest.len(), is_suffix)));
                        self.stopped = true;
                        return;
                    }
                    // C04.b: consumed = shift + storage header + LEN (all read from the bytes)
                    let rs = record_start(&self.buf, self.pos, self.storage);
                    if let Some(rs) = rs {
                        if rs + sl + 4 <= self.buf.len() {
                            let len = ((self.buf[rs + sl + 2] as usize) << 8) | self.buf[rs + sl + 3] as usize;
                            let expect = (rs - self.pos) + sl + len;
                            st.inc("alignment_checks");
                            if consumed != expect {
                                let dir = if consumed > expect { "past" } else { "short-of" };
                                v.push(Violation::new("C04.b", &format!("{}-declared-end/{}", dir, tag), format!("at {}: consumed {} bytes but shift {} + storage {} + LEN {} = {} ({})", self.pos, consumed, rs - self.pos, sl, len, expect, tag)));
                            }
                            if let ParsedMessage::FilteredOut(n) = &pm {
                                st.inc("filtered_out");
                                let hl = all_headers_len(self.buf[rs + sl]);
                                if *n + hl != len {
                                    v.push(Violation::new("C04.c", "filtered-payload-length", format!("at {}: FilteredOut({}) but LEN {} - headers {} = {}", self.pos, n, len, hl, len as i64 - hl as i64)));
                                }
                            }
                        }
                    }
                    let mut c = vec![];
                    canon_parsed(&pm, &mut c);
                    self.h.u64(self.pos as u64);
                    self.h.u64(consumed as u64);
                    self.h.bytes(&c);
                    self.oks.push((self.pos, consumed, c));
                    if let ParsedMessage::Item(m) = pm {
                        self.items.push(m);
                    }
                    self.pos += consumed;
                }
                Err(DltParseError::IncompleteParse { .. }) => {
                    st.inc("incomplete");
                    return;
                }
                Err(_) => {
                    st.inc("parse_errors");
                    self.verdict_at.push(self.pos);
                    self.h.u64(self.pos as u64);
                    self.h.bytes(b"E");
                    // resynchronise
                    let rs = record_start(&self.buf, self.pos, self.storage);
                    if self.declared_skip {
                        match rs {
                            Some(rs) if rs + sl + 4 <= self.buf.len() => {
                                let len = ((self.buf[rs + sl + 2] as usize) << 8) | self.buf[rs + sl + 3] as usize;
                                if len < 4 {
                                    self.stopped = true;
                                    return;
                                }
                                self.pos = rs + sl + len;
                                if self.pos > self.buf.len() {
                                    self.stopped = true;
                                    return;
                                }
                            }
                            _ => {
                                self.stopped = true;
                                return;
                            }
                        }
                    } else if self.storage {
                        st.inc("resyncs");
                        let from = (self.pos + 1).min(self.buf.len());
                        match guarded(|| forward_to_next_storage_header(&self.buf[from..]).map(|(n, _)| n as usize)) {
                            Err(p) => {
                                v.push(Violation::new("C03.a", &format!("panic@{}", panic_site(&p)), format!("forward_to_next_storage_header panicked: {}", p)));
                                self.stopped = true;
                                return;
                            }
                            Ok(Some(n)) => self.pos = from + n,
                            Ok(None) => {
                                // keep a possible partial pattern at the end of the buffer
                                self.pos = self.buf.len().saturating_sub(3).max(from.min(self.buf.len()));
                                return;
                            }
                        }
                    } else {
                        // plain mode: skip by the declared length when it is usable
                        if self.pos + 4 <= self.buf.len() {
                            let len = ((self.buf[self.pos + 2] as usize) << 8) | self.buf[self.pos + 3] as usize;
                            if len >= 4 && self.pos + len <= self.buf.len() {
                                self.pos += len;
                                continue;
                            }
                        }
                        self.stopped = true;
                        return;
                    }
                }
            }
        }
    }
}

/// deliver the medium through the scripted source into a streaming consumer
fn run_sc<'a>(
    case: &StreamCase,
    data: &Rc<Vec<u8>>,
    filter: Option<&'a ProcessedDltFilterConfig>,
    declared_skip: bool,
    focus: Focus,
    clean_starts: Option<&[usize]>,
    v: &mut Vec<Violation>,
    st: &mut Stats,
) -> (Sc<'a>, Rc<RefCell<Core>>) {
    let (policy, rng) = match &case.gen {
        Some(g) => (Some(g.policy.clone()), Rng::new(g.sched_seed)),
        None => (None, Rng::new(0)),
    };
    let core = Rc::new(RefCell::new(Core::new(data.clone(), case.script.clone(), policy, rng)));
    let mut src = ScriptedRead(core.clone());
    let mut sc = Sc { storage: case.storage, filter, declared_skip, buf: Vec::with_capacity(data.len()), pos: 0, oks: vec![], items: vec![], verdict_at: vec![], stopped: false, h: Fnv::default(), big_searches: 0 };
    let mut tmp = vec![0u8; 70_000];
    // 0, 1 or 5 idle polls after every arrival, decided by the case (aux[0]: replayable)
    let idle_polls = match case.aux.first().copied().unwrap_or(0) % 4 {
        0 => 5,
        1 => 1,
        _ => 0,
    };
    loop {
        let n = match src.read(&mut tmp) {
            Ok(n) => n,
            Err(_) => 0,
        };
        if n == 0 {
            break;
        }
        sc.buf.extend_from_slice(&tmp[..n]);
        st.inc("arrivals");
        sc.pump(focus, clean_starts, data.len(), v, st);
        // idle polls: a timer-driven caller runs the parser again although nothing new arrived;
        // the verdicts (and everything the oracles check on them) must be the same every time
        if idle_polls > 0 && v.is_empty() && !sc.stopped {
            for _ in 0..idle_polls {
                sc.pump(focus, clean_starts, data.len(), v, st);
                st.inc("idle_polls");
            }
        }
        // a clause of another property never decides (or cuts short) this property's run
        v.retain(|x| x.clause.starts_with(focus.id()));
        if sc.stopped || !v.is_empty() {
            break;
        }
    }
    (sc, core)
}

pub fn execute(case: &StreamCase, focus: Focus, st: &mut Stats) -> Exec {
    let mut v: Vec<Violation> = vec![];
    let mut h = Fnv::default();
    let filter = case.filter.as_ref().map(|f| f.processed());
    let data = Rc::new(case.medium.clone());
    let sl = if case.storage { 16 } else { 0 };
    let mut key = Fnv::default();
    key.bytes(&data);
    key.str(&case.mode);

    if case.mode == "cut" {
        // ---- C05.a-c: every proper prefix of one well-formed record -----------------------------
        let wellformed = match cut_at(&data, 0, case.storage) {
            Cut::Piece(n) if n == data.len() => match decode_headers(&data, case.storage) {
                Some(hv) => hv.len >= hv.headers_len && (!case.storage || data[..4] == PATTERN),
                None => false,
            },
            _ => false,
        };
        if !wellformed {
            return Exec { violations: v, hist: 0, taken: vec![], nontrivial: false, key: 0 };
        }
        let cuts: Vec<usize> = if case.aux.is_empty() { (0..data.len()).collect() } else { case.aux.iter().map(|c| *c as usize).filter(|c| *c < data.len()).collect() };
        let hdr_end = sl + all_headers_len(data[sl]);
        for cut in cuts {
            let prefix = &data[..cut];
            let missing = data.len() - cut;
            st.inc("evaluations");
            st.inc(if cut < sl {
                "cut_in_storage_header"
            } else if cut < sl + 4 {
                "cut_in_fixed_header"
            } else if cut < hdr_end {
                "cut_in_optional_headers"
            } else {
                "cut_in_payload"
            });
            for (fname, f) in [("none", None), ("filter", filter.as_ref())] {
                if fname == "filter" && f.is_none() {
                    continue;
                }
                // every fourth cut: the same prefix five times in a row (a caller that polls
                // without new data); each answer is judged on its own
                let reps = if cut % 4 == 1 && fname == "none" { 5 } else { 1 };
                for _rep in 0..reps {
                if !v.is_empty() {
                    break;
                }
                match guarded(|| dlt_message(prefix, f, case.storage).map(|(rest, pm)| (rest.len(), format!("{:?}", pm).chars().take(80).collect::<String>()))) {
                    Err(p) => v.push(Violation::new("C05.a", &format!("panic@{}", panic_site(&p)), format!("cut {} of {}: dlt_message panicked: {}", cut, data.len(), p))),
                    Ok(Ok((rest, pm))) => v.push(Violation::new("C05.a", "message-from-proper-prefix", format!("cut {} of {} (filter {}): parser returned Ok({} left, {})", cut, data.len(), fname, rest, pm))),
                    Ok(Err(DltParseError::IncompleteParse { needed })) => {
                        if let Some(n) = needed {
                            st.inc("incomplete_with_hint");
                            if n.get() > missing {
                                v.push(Violation::new("C05.b", "hint-too-large", format!("cut {} of {}: {} bytes missing but hint says {}", cut, data.len(), missing, n)));
                            }
                        } else {
                            st.inc("incomplete_without_hint");
                        }
                    }
                    Ok(Err(e)) => v.push(Violation::new("C05.a", "hard-error-on-proper-prefix", format!("cut {} of {} (filter {}): parser returned {:?}", cut, data.len(), fname, e))),
                }
                }
            }
            if case.storage {
                match guarded(|| dlt_consume_msg(prefix).map(|(rest, c)| (rest.len(), c))) {
                    Err(p) => v.push(Violation::new("C05.c", &format!("panic@{}", panic_site(&p)), format!("cut {}: dlt_consume_msg panicked: {}", cut, p))),
                    Ok(Ok((rest, c))) => {
                        if !(cut == 0 && c.is_none() && rest == 0) {
                            v.push(Violation::new("C05.c", "skipper-ok-on-proper-prefix", format!("cut {} of {}: dlt_consume_msg returned Ok(({} left, {:?}))", cut, data.len(), rest, c)));
                        }
                    }
                    Ok(Err(DltParseError::IncompleteParse { needed })) => {
                        if cut == 0 {
                            v.push(Violation::new("C05.c", "skipper-empty-input", "dlt_consume_msg on empty input did not report 'no message'".into()));
                        } else if let Some(n) = needed {
                            if n.get() > missing {
                                v.push(Violation::new("C05.c", "hint-too-large", format!("cut {} of {}: {} bytes missing but the skipper's hint says {}", cut, data.len(), missing, n)));
                            }
                        }
                    }
                    Ok(Err(e)) => v.push(Violation::new("C05.c", "skipper-hard-error-on-proper-prefix", format!("cut {} of {}: dlt_consume_msg returned {:?}", cut, data.len(), e))),
                }
            }
            if !v.is_empty() {
                // remember the failing cut for the replay file
                h.u64(cut as u64);
                break;
            }
        }
        h.bytes(&data);
        let nontrivial = data.len() > sl + 4;
        return Exec { violations: v, hist: h.0, taken: vec![], nontrivial, key: key.0 };
    }

    // ---- streaming modes --------------------------------------------------------------------------
    let declared_skip = matches!(case.mode.as_str(), "payload" | "clean");
    let clean_starts: Option<Vec<usize>> = if case.mode == "clean" && case.aux.len() >= 2 {
        let n = case.aux[1] as usize;
        Some(case.aux.iter().skip(2).take(n).map(|x| *x as usize).collect())
    } else {
        None
    };
    // the clean-stream oracle is only sound while the recorded starts describe the medium
    let clean_starts = clean_starts.filter(|s| {
        let mut pos = 0;
        for x in s.iter() {
            if *x != pos {
                return false;
            }
            match cut_at(&data, pos, case.storage) {
                Cut::Piece(n) => pos += n,
                _ => return false,
            }
        }
        pos == data.len() && (!case.storage || s.iter().all(|x| data[*x..*x + 4] == PATTERN))
    });
    let (sc, core) = run_sc(case, &data, None, declared_skip, focus, clean_starts.as_deref(), &mut v, st);
    let taken = core.borrow().taken.clone();
    let eff_len = core.borrow().pos;
    h.u64(core.borrow().log.0);
    h.u64(sc.h.0);
    key.u64(core.borrow().script_hash());
    let inner = core.borrow().inner_boundaries();
    st.add("source_calls", core.borrow().stats.calls);
    st.add("items", sc.items.len() as u64);
    let eff = &data[..eff_len];

    // second consumer with the run's filter: the presence of a filter never changes where the
    // next message is looked for (C04.e) and nothing panics (C03.a)
    let mut sc_f = None;
    if let Some(f) = filter.as_ref() {
        if v.is_empty() && matches!(focus, Focus::C03 | Focus::C04) {
            let (s2, _) = run_sc(case, &data, Some(f), declared_skip, focus, None, &mut v, st);
            h.u64(s2.h.0);
            sc_f = Some(s2);
        }
    }

    v.retain(|x| x.clause.starts_with(focus.id()));
    // ---- C04.e: alignment end to end (payload-confined faults, headers intact) ------------------
    if case.mode == "payload" && v.is_empty() && focus == Focus::C04 {
        // independent walk over the delivered bytes
        let mut starts = vec![];
        let mut pos = 0usize;
        loop {
            let Some(rs) = record_start(eff, pos, case.storage) else { break };
            if rs + sl + 4 > eff.len() {
                break;
            }
            let len = ((eff[rs + sl + 2] as usize) << 8) | eff[rs + sl + 3] as usize;
            if len < 4 || rs + sl + len > eff.len() {
                break;
            }
            starts.push(pos);
            pos = rs + sl + len;
        }
        st.add("walk_records", starts.len() as u64);
        let mut consumers: Vec<(&str, &Sc)> = vec![("no filter", &sc)];
        if let Some(s2) = sc_f.as_ref() {
            consumers.push(("with filter", s2));
        }
        for (name, c) in consumers {
            let mut seen = c.verdict_at.clone();
            seen.dedup();
            // The consumer may have looked further (at an unusable tail), and it may be *behind*:
            // waiting with 'incomplete' at the next record start when the stream ended (C04 speaks
            // about successful parses only, so a stall is not judged here). It must never have
            // obtained a verdict anywhere else.
            let n = starts.len().min(seen.len());
            let stalled_ok = seen.len() >= starts.len() || c.pos == starts[seen.len()];
            if seen[..n] != starts[..n] || !stalled_ok {
                let first = (0..n).find(|i| seen[*i] != starts[*i]).unwrap_or(n);
                v.push(Violation::new(
                    "C04.e",
                    "walk-misaligned",
                    format!("consumer ({}) looked for messages at {:?} (now at {}) but the records start at {:?} (first difference at index {})", name, &seen[..seen.len().min(first + 3)], c.pos, &starts[..starts.len().min(first + 3)], first),
                ));
                break;
            }
            if seen.len() < starts.len() {
                st.inc("consumer_stalled_on_complete_record");
            }
            if c.verdict_at.len() != seen.len() {
                v.push(Violation::new("C04.e", "no-progress", format!("consumer ({}) obtained two verdicts at the same offset: {:?}", name, c.verdict_at)));
                break;
            }
        }
    }

    v.retain(|x| x.clause.starts_with(focus.id()));
    // ---- IX: indexer with dlt_consume_msg / skip_storage_header (C04.d, C03.a) ------------------
    if case.storage && v.is_empty() && matches!(focus, Focus::C03 | Focus::C04) {
        let mut pos = 0usize;
        let mut index = vec![];
        let mut guard = 0;
        while pos <= eff.len() && guard < 100_000 {
            guard += 1;
            let input = &eff[pos..];
            st.inc("consume_calls");
            match guarded(|| dlt_consume_msg(input).map(|(rest, c)| (rest.len(), rest.as_ptr() as usize, c))) {
                Err(p) => {
                    v.push(Violation::new("C03.a", &format!("panic@{}", panic_site(&p)), format!("dlt_consume_msg panicked at {}: {}", pos, p)));
                    break;
                }
                Ok(Ok((rl, rp, Some(c)))) => {
                    let consumed = input.len().wrapping_sub(rl);
                    // "after any bytes skipped in front of the storage-header pattern": the skipper
                    // of the pinned tree refuses input that does not start with the pattern, but the
                    // statement allows it to skip there like the parser does; the record it skipped
                    // is the one at the first pattern (independent search)
                    let shift = naive_find(input).unwrap_or(0);
                    let len = if input.len() >= shift + 20 { ((input[shift + 18] as usize) << 8) | input[shift + 19] as usize } else { usize::MAX };
                    let suffix = rp + rl == input.as_ptr() as usize + input.len() && rl < input.len();
                    if input.is_empty() || !suffix || c as usize != consumed || consumed != shift.wrapping_add(16).wrapping_add(len) || consumed == 0 {
                        v.push(Violation::new("C04.d", "skipper-count", format!("dlt_consume_msg at {}: reported {} consumed, distance {}, shift {} + 16 + LEN = {}, strict suffix = {}", pos, c, consumed, shift, len.wrapping_add(16).wrapping_add(shift), suffix)));
                        break;
                    }
                    index.push(pos + shift);
                    pos += consumed;
                }
                Ok(Ok((rl, _, None))) => {
                    if !input.is_empty() || rl != 0 {
                        v.push(Violation::new("C04.d", "skipper-none-on-nonempty", format!("dlt_consume_msg at {} returned no message on {} bytes", pos, input.len())));
                    }
                    break;
                }
                Ok(Err(DltParseError::IncompleteParse { .. })) => break,
                Ok(Err(_)) => {
                    // resync with the search (also exercises skip_storage_header's refusal)
                    let _ = guarded(|| skip_storage_header(input).is_ok());
                    let from = (pos + 1).min(eff.len());
                    match naive_find(&eff[from..]) {
                        Some(n) => pos = from + n,
                        None => break,
                    }
                }
            }
        }
        st.add("indexed", index.len() as u64);
        // random-access pass over the index
        let mut r = Rng::new(case.aux.first().copied().unwrap_or(1));
        for _ in 0..index.len().min(4) {
            let off = index[r.below(index.len())];
            if let Err(p) = guarded(|| {
                let _ = skip_storage_header(&eff[off..]);
                dlt_message(&eff[off..], filter.as_ref(), true).is_ok()
            }) {
                v.push(Violation::new("C03.a", &format!("panic@{}", panic_site(&p)), format!("random access parse at indexed offset {} panicked: {}", off, p)));
            }
        }
        if case.mode == "payload" && v.is_empty() && focus == Focus::C04 && !sc.stopped {
            let scpos: Vec<usize> = sc.oks.iter().map(|(p, _, _)| *p).collect();
            // the indexer finds records at pattern positions; the consumer's Ok positions are
            // where the parser was called (before junk). Compare ends instead: both must end
            // records at the same offsets.
            let ix_ends: Vec<usize> = index.iter().map(|p| p + 16 + (((eff[p + 18] as usize) << 8) | eff[p + 19] as usize)).collect();
            let sc_ends: Vec<usize> = sc.oks.iter().map(|(p, c, _)| p + c).collect();
            let _ = scpos;
            for e in &sc_ends {
                if !ix_ends.contains(e) {
                    v.push(Violation::new("C04.e", "parser-and-skipper-disagree", format!("the parser ended a message at {} but the skipper's walk ends messages at {:?}", e, ix_ends)));
                    break;
                }
            }
        }
    }

    v.retain(|x| x.clause.starts_with(focus.id()));
    // ---- C03.b/c, NV: use of every returned item -------------------------------------------------
    if focus == Focus::C03 && v.is_empty() {
        let mut r = Rng::new(case.aux.first().copied().unwrap_or(1) ^ 0x5eed);
        for m in &sc.items {
            use_item(m, &mut v, st);
            nv_stage(m, &mut r, &mut v, st);
            if !v.is_empty() {
                break;
            }
        }
        // the four option combinations on the whole buffer and on every record start seen
        for (f, s) in [(None, !case.storage), (filter.as_ref(), !case.storage)] {
            st.inc("parse_calls");
            if let Err(p) = guarded(|| dlt_message(eff, f, s).is_ok()) {
                v.push(Violation::new("C03.a", &format!("panic@{}", panic_site(&p)), format!("dlt_message(filter={}, storage={}) on the whole medium panicked: {}", f.is_some(), s, p)));
            }
        }
        if let Err(p) = guarded(|| {
            let _ = skip_storage_header(eff);
            let _ = dlt_consume_msg(eff);
        }) {
            v.push(Violation::new("C03.a", &format!("panic@{}", panic_site(&p)), format!("skip_storage_header / dlt_consume_msg panicked: {}", p)));
        }
    }

    v.retain(|x| x.clause.starts_with(focus.id()));
    // ---- C06.b / C06.c ---------------------------------------------------------------------------
    if case.mode == "junk" && focus == Focus::C06 && v.is_empty() && case.aux.len() >= 2 && case.aux[1] != u64::MAX {
        let n = case.aux[1] as usize;
        let starts: Vec<usize> = case.aux.iter().skip(2).take(n).map(|x| *x as usize).collect();
        // soundness guard (also protects the minimiser): pattern occurrences == record starts,
        // every record complete and well-formed
        let mut sound = pattern_positions(&data) == starts && starts.iter().all(|s0| *s0 + 20 <= data.len());
        let mut ends = vec![];
        for s0 in &starts {
            match cut_at(&data, *s0, true) {
                Cut::Piece(k) => ends.push(s0 + k),
                _ => sound = false,
            }
        }
        for i in 1..starts.len() {
            if sound && ends[i - 1] > starts[i] {
                sound = false;
            }
        }
        if sound {
            // C06.b: junk ++ m ++ s parses like m ++ s (two runs of the real parser)
            let drop_all = crate::case::FilterSpec { min_log_level: None, app_ids: Some(vec![]), ecu_ids: None, context_ids: None, app_id_count: 1, context_id_count: 0 }.processed();
            let mut prev_end = 0usize;
            for (i, s0) in starts.iter().enumerate() {
                if *s0 > prev_end {
                    st.inc("junk_blocks_judged");
                    let with_junk = &data[prev_end..];
                    let without = &data[*s0..];
                    let canon = |x: &Result<Result<(usize, ParsedMessage), DltParseError>, String>| -> String {
                        match x {
                            Err(p) => format!("PANIC {}", p),
                            Ok(Err(e)) => err_res(e).short(),
                            Ok(Ok((rest, pm))) => {
                                let mut c = vec![];
                                canon_parsed(pm, &mut c);
                                format!("Ok(rest={}, #{:016x})", rest, Fnv::of(&c))
                            }
                        }
                    };
                    // without a filter, with the run's filter, and with a filter that drops everything
                    for (fname, f) in [("no filter", None), ("the run's filter", filter.as_ref()), ("a filter that drops everything", Some(&drop_all))] {
                        if fname == "the run's filter" && f.is_none() {
                            continue;
                        }
                        let a = guarded(|| dlt_message(with_junk, f, true).map(|(rest, pm)| (rest.len(), pm)));
                        let b = guarded(|| dlt_message(without, f, true).map(|(rest, pm)| (rest.len(), pm)));
                        if canon(&a) != canon(&b) {
                            v.push(Violation::new("C06.b", "junk-changes-result", format!("record {} ({}): with {} junk bytes in front: {}, alone: {}", i, fname, s0 - prev_end, canon(&a), canon(&b))));
                            break;
                        }
                    }
                    if !v.is_empty() {
                        break;
                    }
                }
                prev_end = ends[i];
            }
            // C06.c: every record wholly delivered is recovered, in order, exactly once
            if v.is_empty() && !sc.stopped {
                let mut expect: Vec<Vec<u8>> = vec![];
                for (i, s0) in starts.iter().enumerate() {
                    if ends[i] > eff_len {
                        break;
                    }
                    // what the real parser returns for the clean piece alone
                    if let Ok(Ok((_, pm))) = guarded(|| dlt_message(&data[*s0..ends[i]], None, true)) {
                        let mut c = vec![];
                        canon_parsed(&pm, &mut c);
                        expect.push(c);
                    }
                }
                let got: Vec<&Vec<u8>> = sc.oks.iter().map(|(_, _, c)| c).collect();
                st.add("junk_records_expected", expect.len() as u64);
                if got.len() != expect.len() || got.iter().zip(expect.iter()).any(|(a, b)| *a != b) {
                    v.push(Violation::new("C06.c", "records-not-recovered", format!("{} records recovered at {:?}, {} expected from starts {:?} (delivered {} bytes)", got.len(), sc.oks.iter().map(|(p, c, _)| (*p, *c)).collect::<Vec<_>>(), expect.len(), starts, eff_len)));
                }
            }
            // C06.c with a filter: a second consumer over the same delivery; every record, kept or
            // filtered out, is found where the consumer without filter found it
            // (only when every delivered record parses without filter: what the parser thinks of
            // a record the writer produced is not C06's business)
            let delivered = starts.iter().enumerate().filter(|(i, _)| ends[*i] <= eff_len).count();
            if v.is_empty() && !sc.stopped && sc.oks.len() == delivered {
                let f = filter.as_ref().unwrap_or(&drop_all);
                let mut v2 = vec![];
                let (s2, _) = run_sc(case, &data, Some(f), false, Focus::C06, None, &mut v2, st);
                v.extend(v2.into_iter().filter(|x| x.clause.starts_with("C06")));
                st.inc("junk_filtered_consumers");
                let a: Vec<(usize, usize)> = sc.oks.iter().map(|(p, c, _)| (*p, *c)).collect();
                let b: Vec<(usize, usize)> = s2.oks.iter().map(|(p, c, _)| (*p, *c)).collect();
                if v.is_empty() && !s2.stopped && a != b {
                    v.push(Violation::new("C06.c", "filter-changes-recovery", format!("without filter the records are found at (offset, consumed) {:?}, with a filter at {:?}", a, b)));
                }
            }
        }
    }

    v.retain(|x| x.clause.starts_with(focus.id()));
    // ---- C16: salvage pass --------------------------------------------------------------------------
    if focus == Focus::C16 && v.is_empty() {
        let mut second = vec![];
        let mut kept = vec![];
        for m in &sc.items {
            if let Some(b) = salvage_item(m, case.storage, &mut v, st) {
                second.extend_from_slice(&b);
                let mut c = vec![];
                canon_msg(m, &mut c);
                kept.push(c);
            }
            if !v.is_empty() {
                break;
            }
        }
        // C16.c: the salvaged medium read back by a fresh consumer under a new delivery script
        if v.is_empty() && !kept.is_empty() {
            st.inc("salvaged_media");
            let data2 = Rc::new(second);
            let c2 = StreamCase { medium: (*data2).clone(), script: case.script.iter().rev().cloned().collect(), gen: case.gen.as_ref().map(|g| GenInfo { policy: g.policy.clone(), sched_seed: g.sched_seed ^ 0x5a17a6e, co_policies: vec![] }), storage: case.storage, ..Default::default() };
            let mut v2 = vec![];
            let (sc2, _) = run_sc(&c2, &data2, None, true, Focus::C16, None, &mut v2, st);
            let got: Vec<Vec<u8>> = sc2
                .items
                .iter()
                .map(|m| {
                    let mut c = vec![];
                    canon_msg(m, &mut c);
                    c
                })
                .collect();
            if got != kept {
                let first = (0..got.len().min(kept.len())).find(|i| got[*i] != kept[*i]).unwrap_or(got.len().min(kept.len()));
                v.push(Violation::new("C16.c", "salvaged-stream-differs", format!("{} items salvaged, {} read back; first difference at item {}", kept.len(), got.len(), first)));
            }
            h.u64(sc2.h.0);
        }
    }

    let fired = case.notes.iter().any(|n| n.starts_with("F-")) || case.mode == "dialect";
    let nontrivial = !sc.oks.is_empty() && (inner > 0 || fired);
    Exec { violations: v, hist: h.0, taken, nontrivial, key: key.0 }
}

pub fn eval_for(focus: Focus) -> impl Fn(&StreamCase) -> Vec<Violation> {
    move |case: &StreamCase| {
        let mut st = Stats::default();
        let id = focus.id();
        let ex = execute(case, focus, &mut st);
        if std::env::var("VERIF_DEBUG").is_ok() {
            eprintln!("DEBUG counters: {:?}", st.c);
            eprintln!("DEBUG all violations: {:?}", ex.violations);
        }
        ex.violations.into_iter().filter(|x| x.clause.starts_with(id)).collect()
    }
}

pub fn one_run(focus: Focus, seed: u64, run: u64, tier: Tier, st: &mut Stats) -> (RunResult, Option<StreamCase>) {
    let case = generate(focus, seed, run, tier, st);
    st.inc(match case.mode.as_str() {
        "any" => "mode_any",
        "payload" => "mode_payload",
        "junk" => "mode_junk",
        "clean" => "mode_clean",
        "cut" => "mode_cut",
        "soup" => "mode_soup",
        "dialect" => "mode_dialect",
        "amp" => "mode_amp",
        _ => "mode_other",
    });
    let ex = execute(&case, focus, st);
    st.distinct.insert(ex.key);
    if ex.nontrivial {
        st.nontrivial.insert(ex.key);
    }
    let id = focus.id();
    let mut viol: Vec<Violation> = ex.violations.into_iter().filter(|x| x.clause.starts_with(id)).collect();
    let failing = if viol.is_empty() {
        None
    } else {
        let mut c = case.clone();
        c.script = ex.taken.clone();
        c.gen = None;
        if c.mode == "cut" {
            // keep only the failing cut (its offset is in the detail text; re-find it cheaply)
            let d = &viol[0].detail;
            if let Some(n) = d.strip_prefix("cut ").and_then(|s| s.split(|ch: char| !ch.is_ascii_digit()).next()).and_then(|s| s.parse::<u64>().ok()) {
                c.aux = vec![n];
            }
        }
        Some(c)
    };
    viol.truncate(4);
    (RunResult { violations: viol, hist: ex.hist }, failing)
}
