//! S-READ — C07: the blocking reader equals slice parsing for every fragmentation of the source.

use crate::case::{GenInfo, StreamCase};
use crate::core::{panic_site, guarded, run_seed, RunResult, Stats, Tier, Violation};
use crate::faults::{Confine, Medium};
use crate::model::{cut_all_lim, cut_at_lim, read_res, Cut, Res};
use crate::rng::{Fnv, Rng};
use crate::scen_common::{build, draw_capacities, draw_filter, draw_tight_capacities, BuildOpts};
use crate::source::{Core, Dec, Frag, Policy, ScriptedRead};
use dlt_core::parse::dlt_message;
use dlt_core::read::{read_message, DltMessageReader};
use std::cell::RefCell;
use std::rc::Rc;

pub const TAG: u64 = 0xC07;

pub fn generate(seed: u64, run: u64, _tier: Tier, st: &mut Stats) -> (StreamCase, Option<Medium>) {
    let s = run_seed(seed, TAG, run);
    let mut rw = Rng::fork(s, 1);
    let mut rf = Rng::fork(s, 2);
    let mut rs = Rng::fork(s, 3);
    let confine = if rf.bool() { Confine::Any } else { Confine::InRecord };
    let b = build(
        &mut rw,
        &mut rf,
        &BuildOpts {
            max_records: 40,
            confine,
            clean_pct: 35,
            foreign_pct: 3,
            storage: None,
            stats_swarm: false,
            soup_pct: 6,
            wide_records: 0,
        },
        st,
    );
    let len = b.medium.bytes.len();
    let mut policy = Policy::draw(&mut rs, b.medium.boundaries.clone(), false);
    let mut mode = "exact";
    if rs.chance(1, 4) {
        mode = "ioerr";
        let at = if rs.bool() && !b.medium.boundaries.is_empty() {
            *rs.pick(&b.medium.boundaries)
        } else {
            rs.below(len + 1)
        };
        policy.err_at = Some((at, rs.below(5) as u8));
    } else if rs.chance(1, 6) {
        let at = if rs.bool() && !b.medium.boundaries.is_empty() {
            *rs.pick(&b.medium.boundaries)
        } else {
            rs.below(len + 1)
        };
        policy.eof_at = Some(at);
    }
    let (mut buf_cap, mut msg_max) = draw_capacities(&mut rs, &b.medium.bytes, b.storage, 4);
    let filter = draw_filter(&mut rw, b.swarm.id_alphabet, 30);
    // drawn from a fork of their own so that the other draws of the run do not shift
    let mut rt = Rng::fork(s, 4);
    let mut tight_max = false;
    if rt.chance(1, 12) {
        if let Some((b2, m2)) = draw_tight_capacities(&mut rt, &b.medium.bytes, b.storage) {
            buf_cap = b2;
            msg_max = m2;
            tight_max = true;
        }
    }
    let case = StreamCase {
        prop: "C07".into(),
        mode: mode.into(),
        storage: b.storage,
        medium: b.medium.bytes.clone(),
        filter,
        buf_cap,
        msg_max,
        tight_max,
        gen: Some(GenInfo { policy, sched_seed: rs.next_u64(), co_policies: vec![] }),
        notes: b.medium.notes.clone(),
        seed,
        run,
        ..Default::default()
    };
    (case, Some(b.medium))
}

pub struct Exec {
    pub results: Vec<Res>,
    pub taken: Vec<Dec>,
    pub delivered: usize,
    pub failed: bool,
    pub eof_forced: bool,
    pub violations: Vec<Violation>,
    pub hist: u64,
    pub inner_boundaries: usize,
    pub deliveries: Vec<(usize, usize)>,
    pub pieces: usize,
}

/// what the real parser says about one cut piece (second run of the real code)
pub fn model_parse(piece: &[u8], filter: Option<&dlt_core::filtering::ProcessedDltFilterConfig>, storage: bool) -> Res {
    match guarded(|| dlt_message(piece, filter, storage).map(|(_, m)| Some(m))) {
        Ok(r) => read_res(&r),
        Err(p) => Res::Panic(p),
    }
}

pub fn execute(case: &StreamCase, st: &mut Stats) -> Exec {
    let data = Rc::new(case.medium.clone());
    let (policy, rng) = match &case.gen {
        Some(g) => (Some(g.policy.clone()), Rng::new(g.sched_seed)),
        None => (None, Rng::new(0)),
    };
    let core = Rc::new(RefCell::new(Core::new(data.clone(), case.script.clone(), policy, rng)));
    let filter = case.filter.as_ref().map(|f| f.processed());
    let src = ScriptedRead(core.clone());
    let mut reader = if case.buf_cap == 0 && case.msg_max == 0 {
        st.inc("reader_default_ctor");
        DltMessageReader::new(src, case.storage)
    } else {
        DltMessageReader::with_capacity(case.buf_cap, case.msg_max, src, case.storage)
    };

    let (full_pieces, _full_term) = cut_all_lim(&data, case.storage, case.msg_max);
    let max_calls = full_pieces.len() + 1;
    let mut results: Vec<Res> = vec![];
    let mut cutter_pos = 0usize;
    let mut stop_hard = false; // panic / hard error / SHORTLEN: nothing is required afterwards
    for _ in 0..max_calls {
        let slice_api = crate::scen_common::via_slice(results.len(), data.len());
        if slice_api {
            st.inc("reader_calls_via_next_message_slice");
        }
        let r = match guarded(|| crate::scen_common::reader_call(&mut reader, filter.as_ref(), slice_api)) {
            Ok(r) => read_res(&r),
            Err(p) => Res::Panic(p),
        };
        st.inc("reader_calls");
        let is_none = r == Res::None;
        let is_panic = r.is_panic();
        results.push(r);
        if is_panic {
            stop_hard = true;
            break;
        }
        if core.borrow().failed.is_some() {
            stop_hard = true;
            break;
        }
        match cut_at_lim(&data, cutter_pos, case.storage, case.msg_max) {
            Cut::Piece(n) => cutter_pos += n,
            Cut::ShortLen(_) | Cut::Oversize(_) => {
                stop_hard = true;
                break;
            }
            _ => break,
        }
        if is_none {
            break;
        }
    }
    let terminal_calls = results.len();
    if !stop_hard {
        for _ in 0..2 {
            let r = match guarded(|| read_message(&mut reader, filter.as_ref())) {
                Ok(r) => read_res(&r),
                Err(p) => Res::Panic(p),
            };
            st.inc("reader_calls");
            let p = r.is_panic();
            results.push(r);
            if p || core.borrow().failed.is_some() {
                break;
            }
        }
    }
    drop(reader);
    let core = core.borrow();
    let failed = core.failed.is_some();
    let eff: &[u8] = if failed || core.eof_forced { &data[..core.pos] } else { &data[..] };
    let (pieces, term) = cut_all_lim(eff, case.storage, case.msg_max);

    // ---- oracle -------------------------------------------------------------------------------
    let mut v = vec![];
    for (i, r) in results.iter().enumerate() {
        if let Res::Panic(p) = r {
            v.push(Violation::new(
                "C07.c",
                &format!("panic@{}", panic_site(p)),
                format!("call {} panicked: {} (cutter: {:?})", i, p, if i < pieces.len() { Cut::Piece(pieces[i].1 - pieces[i].0) } else { term.clone() }),
            ));
            break;
        }
        if i < pieces.len() {
            let (a, b) = pieces[i];
            let exp = model_parse(&eff[a..b], filter.as_ref(), case.storage);
            if *r != exp {
                v.push(Violation::new(
                    "C07.a",
                    "piece-mismatch",
                    format!("call {}: reader returned {}, slice parsing of piece [{}..{}) gives {}", i, r.short(), a, b, exp.short()),
                ));
                break;
            }
        } else if i == pieces.len() && i < terminal_calls {
            // terminal call
            let ok = if failed {
                *r == Res::None || r.is_err()
            } else {
                match &term {
                    Cut::Eos(0) => *r == Res::None,
                    _ => *r == Res::None || r.is_err(),
                }
            };
            if !ok {
                let class = if r.is_msg() { "message-from-truncated-tail" } else { "clean-end-not-none" };
                v.push(Violation::new(
                    "C07.b",
                    class,
                    format!("terminal call {}: reader returned {}, cutter says {:?}{}", i, r.short(), term, if failed { " after hard I/O error" } else { "" }),
                ));
                break;
            }
        } else {
            // calls after the terminal outcome
            if r.is_msg() {
                v.push(Violation::new(
                    "C07.d",
                    "message-after-terminal",
                    format!("call {} after the terminal outcome returned {}", i, r.short()),
                ));
                break;
            }
        }
    }
    if v.is_empty() && results.len() <= pieces.len() && !failed {
        v.push(Violation::new(
            "C07.a",
            "stopped-early",
            format!("{} calls made but {} complete records are in the stream", results.len(), pieces.len()),
        ));
    }
    let mut h = Fnv::default();
    h.u64(core.log.0);
    for r in &results {
        h.str(&r.short());
    }
    match term {
        Cut::Eos(0) => st.inc("term_clean_eos"),
        Cut::Eos(_) => st.inc("term_partial_header"),
        Cut::Short { .. } => st.inc("term_short_record"),
        Cut::ShortLen(_) => st.inc("term_shortlen"),
        Cut::Oversize(_) => st.inc("term_oversize"),
        Cut::Piece(_) => {}
    }
    st.add("source_calls", core.stats.calls);
    st.add("source_interrupted", core.stats.interrupted);
    st.add("source_short_reads", core.stats.short_reads);
    st.add("source_hard_errors", core.stats.hard_errors);
    st.add("source_early_eof", core.stats.early_eof);
    st.add("records_expected", pieces.len() as u64);
    st.add("results_item", results.iter().filter(|r| r.is_msg()).count() as u64);
    st.add("results_parse_err", results.iter().take(pieces.len()).filter(|r| r.is_err()).count() as u64);
    Exec {
        results,
        taken: core.taken.clone(),
        delivered: core.pos,
        failed,
        eof_forced: core.eof_forced,
        violations: v,
        hist: h.0,
        inner_boundaries: core.inner_boundaries(),
        deliveries: core.deliveries.clone(),
        pieces: pieces.len(),
    }
}

/// evaluation used by minimiser and replay
pub fn eval(case: &StreamCase) -> Vec<Violation> {
    let mut st = Stats::default();
    execute(case, &mut st).violations
}

pub fn one_run(seed: u64, run: u64, tier: Tier, st: &mut Stats) -> (RunResult, Option<StreamCase>) {
    let (case, medium) = generate(seed, run, tier, st);
    let ex = execute(&case, st);
    // reach accounting
    let mhash = Fnv::of(&case.medium);
    let mut shash = Fnv::default();
    for d in &ex.taken {
        shash.str(&d.to_json());
    }
    let key = crate::rng::splitmix64(mhash ^ shash.0);
    st.distinct.insert(key);
    let fired = !case.notes.is_empty() || ex.failed || ex.eof_forced;
    if ex.pieces >= 1 && (ex.inner_boundaries > 0 || fired) {
        st.nontrivial.insert(key);
    }
    if let Some(m) = &medium {
        if m.aligned {
            let sl = if case.storage { 20 } else { 4 };
            for (o, n) in &ex.deliveries {
                let b = o + n;
                if b >= case.medium.len() {
                    continue;
                }
                // phase: is the boundary inside the fixed header of its record?
                let i = m.starts.partition_point(|s| *s <= b);
                let rs = if i > 0 { m.starts[i - 1] } else { 0 };
                let phase = if b - rs < sl { 1u32 } else { 2 };
                st.triples.insert((phase << 16) | ((m.region_at(b) as u32) << 8) | m.fault_near(b) as u32);
                if phase == 1 {
                    st.inc("boundary_in_fixed_header");
                    if b - rs == sl - 2 || b - rs == sl - 1 {
                        st.inc("boundary_inside_LEN");
                    }
                } else {
                    st.inc("boundary_in_rest");
                }
            }
        }
    }
    if ex.taken.iter().any(|d| *d == Dec::I) {
        st.inc("runs_with_interrupted");
    }
    if case.mode == "ioerr" && ex.failed {
        st.inc("runs_with_hard_error");
    }
    if ex.eof_forced {
        st.inc("runs_with_early_eof");
    }
    if case.tight_max {
        st.inc("runs_with_tight_message_max_len");
    }
    let failing = if ex.violations.is_empty() {
        None
    } else {
        let mut c = case.clone();
        c.script = ex.taken.clone();
        c.gen = None;
        Some(c)
    };
    (RunResult { violations: ex.violations, hist: ex.hist }, failing)
}

/// A stream longer than the 10 MiB default BufReader capacity, read through the reader's default
/// constructor: the refill of the default configuration happens inside a record.
pub fn big_stream_case(prop: &str, seed: u64, idx: u64, is_async: bool) -> StreamCase {
    let s = run_seed(seed, TAG ^ 0xB16, idx);
    let mut rw = Rng::fork(s, 1);
    let mut rs = Rng::fork(s, 3);
    let storage = rw.bool();
    let mut sw = crate::gen::Swarm::draw(&mut rw, storage);
    sw.size_w = [1, 2, 6, 1];
    sw.max_args = 4;
    let target = 10 * 1024 * 1024 + 4096 + rw.below(600_000);
    let mut medium: Vec<u8> = Vec::with_capacity(target + 70_000);
    let mut boundaries = vec![0usize];
    while medium.len() < target {
        let rec = crate::gen::gen_record(&mut rw, &sw);
        medium.extend_from_slice(&rec.bytes);
        boundaries.push(medium.len());
    }
    let mut notes = vec![format!("big stream: {} bytes, {} records, default constructor", medium.len(), boundaries.len() - 1)];
    if rw.chance(1, 3) {
        let at = medium.len() - 1 - rw.below(5000);
        medium.truncate(at);
        notes.push(format!("F-TRUNC at {}", at));
    }
    let mut policy = Policy::draw(&mut rs, vec![], is_async);
    policy.frag = *rs.pick(&[Frag::Full, Frag::Uniform(1 << 20), Frag::Uniform(65_536), Frag::Uniform(10 * 1024 * 1024 + 7)]);
    policy.intr_pct = if is_async { 0 } else { 10 };
    policy.pend_pct = if is_async { 10 } else { 0 };
    StreamCase {
        prop: prop.into(),
        mode: if is_async { "poll".into() } else { "exact".into() },
        storage,
        medium,
        buf_cap: 0,
        msg_max: 0,
        gen: Some(GenInfo { policy, sched_seed: rs.next_u64(), co_policies: vec![] }),
        notes,
        seed,
        run: idx,
        ..Default::default()
    }
}
