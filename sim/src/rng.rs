//! One integer decides everything: splitmix64 to derive seeds, xoshiro256** for the streams.
//! No clock, address, thread id or hash-map order ever enters a draw.

#[inline]
pub fn splitmix64(x: u64) -> u64 {
    let mut z = x.wrapping_add(0x9E37_79B9_7F4A_7C15);
    z = (z ^ (z >> 30)).wrapping_mul(0xBF58_476D_1CE4_E5B9);
    z = (z ^ (z >> 27)).wrapping_mul(0x94D0_49BB_1331_11EB);
    z ^ (z >> 31)
}

/// FNV-1a 64 bit, used for history / script / medium hashes (stable across runs and platforms).
#[derive(Clone, Copy)]
pub struct Fnv(pub u64);
impl Default for Fnv {
    fn default() -> Self {
        Fnv(0xcbf2_9ce4_8422_2325)
    }
}
impl Fnv {
    #[inline]
    pub fn bytes(&mut self, b: &[u8]) {
        for x in b {
            self.0 ^= *x as u64;
            self.0 = self.0.wrapping_mul(0x0000_0100_0000_01B3);
        }
    }
    #[inline]
    pub fn u64(&mut self, v: u64) {
        self.bytes(&v.to_le_bytes());
    }
    #[inline]
    pub fn str(&mut self, s: &str) {
        self.bytes(s.as_bytes());
        self.bytes(&[0xff]);
    }
    pub fn of(b: &[u8]) -> u64 {
        let mut f = Fnv::default();
        f.bytes(b);
        f.0
    }
}

#[derive(Clone, Debug)]
pub struct Rng {
    s: [u64; 4],
}

impl Rng {
    pub fn new(seed: u64) -> Self {
        let mut x = seed;
        let mut s = [0u64; 4];
        for v in s.iter_mut() {
            x = splitmix64(x);
            *v = x;
        }
        if s == [0, 0, 0, 0] {
            s[0] = 1;
        }
        Rng { s }
    }
    /// derive an independent stream (workload / faults / schedule)
    pub fn fork(seed: u64, stream: u64) -> Self {
        Rng::new(splitmix64(seed ^ splitmix64(stream.wrapping_mul(0xA24B_AED4_963E_E407))))
    }
    #[inline]
    pub fn next_u64(&mut self) -> u64 {
        let r = self.s[1].wrapping_mul(5).rotate_left(7).wrapping_mul(9);
        let t = self.s[1] << 17;
        self.s[2] ^= self.s[0];
        self.s[3] ^= self.s[1];
        self.s[1] ^= self.s[2];
        self.s[0] ^= self.s[3];
        self.s[2] ^= t;
        self.s[3] = self.s[3].rotate_left(45);
        r
    }
    #[inline]
    pub fn u32(&mut self) -> u32 {
        (self.next_u64() >> 32) as u32
    }
    #[inline]
    pub fn u8(&mut self) -> u8 {
        (self.next_u64() >> 56) as u8
    }
    /// uniform in 0..n (n > 0)
    #[inline]
    pub fn below(&mut self, n: usize) -> usize {
        debug_assert!(n > 0);
        ((self.next_u64() >> 11) % (n as u64)) as usize
    }
    /// uniform in lo..=hi
    #[inline]
    pub fn range(&mut self, lo: usize, hi: usize) -> usize {
        debug_assert!(hi >= lo);
        lo + self.below(hi - lo + 1)
    }
    /// true with probability num/den
    #[inline]
    pub fn chance(&mut self, num: usize, den: usize) -> bool {
        self.below(den) < num
    }
    pub fn bool(&mut self) -> bool {
        self.next_u64() >> 63 == 1
    }
    pub fn pick<'a, T>(&mut self, xs: &'a [T]) -> &'a T {
        &xs[self.below(xs.len())]
    }
    /// small numbers likely, large ones possible: geometric-ish
    pub fn geometric(&mut self, mean: usize, cap: usize) -> usize {
        let mut n = 0;
        while n < cap && !self.chance(1, mean.max(1) + 1) {
            n += 1;
        }
        n
    }
    pub fn fill(&mut self, buf: &mut [u8]) {
        for c in buf.chunks_mut(8) {
            let v = self.next_u64().to_le_bytes();
            c.copy_from_slice(&v[..c.len()]);
        }
    }
    pub fn bytes(&mut self, n: usize) -> Vec<u8> {
        let mut v = vec![0u8; n];
        self.fill(&mut v);
        v
    }
    /// weighted choice: returns index
    pub fn weighted(&mut self, w: &[u32]) -> usize {
        let total: u64 = w.iter().map(|x| *x as u64).sum();
        if total == 0 {
            return self.below(w.len());
        }
        let mut r = (self.next_u64() >> 11) % total;
        for (i, x) in w.iter().enumerate() {
            if r < *x as u64 {
                return i;
            }
            r -= *x as u64;
        }
        w.len() - 1
    }
}
