//! A fully materialised run of the stream scenarios (S-READ, S-POLL, S-STAT, S-SLICE): the bytes
//! of the medium, the explicit decision script(s), reader configuration and scenario parameters.
//! A replay file is exactly this structure; replay needs the file and the code, not the generators.

use crate::core::{bytes_from_json, bytes_to_json};
use crate::rng::Rng;
use crate::source::{script_from_json, script_to_json, Dec, Policy};
use dlt_core::filtering::{DltFilterConfig, ProcessedDltFilterConfig};
use serde_json::{json, Value as J};

#[derive(Clone, Debug, PartialEq)]
pub struct FilterSpec {
    pub min_log_level: Option<u8>,
    pub app_ids: Option<Vec<String>>,
    pub ecu_ids: Option<Vec<String>>,
    pub context_ids: Option<Vec<String>>,
    pub app_id_count: i64,
    pub context_id_count: i64,
}

impl FilterSpec {
    pub fn draw(r: &mut Rng, alphabet: usize) -> FilterSpec {
        let ids = |r: &mut Rng| -> Option<Vec<String>> {
            if r.chance(1, 2) {
                None
            } else {
                let n = r.below(4);
                Some((0..n).map(|_| crate::gen::gen_id(r, alphabet)).collect())
            }
        };
        FilterSpec {
            min_log_level: if r.bool() {
                let lit = crate::dict::num_below(r, 255).unwrap_or(0) as u8;
                Some(*r.pick(&[0u8, 1, 2, 3, 4, 5, 6, 7, 200, lit]))
            } else {
                None
            },
            app_ids: ids(r),
            ecu_ids: ids(r),
            context_ids: ids(r),
            app_id_count: r.below(5) as i64,
            context_id_count: r.below(5) as i64,
        }
    }
    /// through the crate's own conversion (real code)
    pub fn processed(&self) -> ProcessedDltFilterConfig {
        ProcessedDltFilterConfig::from(DltFilterConfig {
            min_log_level: self.min_log_level,
            app_ids: self.app_ids.clone(),
            ecu_ids: self.ecu_ids.clone(),
            context_ids: self.context_ids.clone(),
            app_id_count: self.app_id_count,
            context_id_count: self.context_id_count,
        })
    }
    pub fn to_json(&self) -> J {
        json!({
            "min_log_level": self.min_log_level, "app_ids": self.app_ids, "ecu_ids": self.ecu_ids,
            "context_ids": self.context_ids, "app_id_count": self.app_id_count,
            "context_id_count": self.context_id_count
        })
    }
    pub fn from_json(v: &J) -> Option<FilterSpec> {
        if v.is_null() {
            return None;
        }
        let ids = |x: &J| -> Option<Vec<String>> {
            x.as_array().map(|a| a.iter().filter_map(|s| s.as_str().map(String::from)).collect())
        };
        Some(FilterSpec {
            min_log_level: v["min_log_level"].as_u64().map(|x| x as u8),
            app_ids: ids(&v["app_ids"]),
            ecu_ids: ids(&v["ecu_ids"]),
            context_ids: ids(&v["context_ids"]),
            app_id_count: v["app_id_count"].as_i64().unwrap_or(0),
            context_id_count: v["context_id_count"].as_i64().unwrap_or(0),
        })
    }
}

/// Generation-time information: where decisions come from once the explicit script is exhausted.
#[derive(Clone, Debug)]
pub struct GenInfo {
    pub policy: Policy,
    pub sched_seed: u64,
    /// policies of the co-tasks (async scenario)
    pub co_policies: Vec<Policy>,
}

#[derive(Clone, Debug, Default)]
pub struct StreamCase {
    pub prop: String,
    /// scenario-specific sub-mode (e.g. "exact", "ioerr", "cut", "junk")
    pub mode: String,
    pub storage: bool,
    pub medium: Vec<u8>,
    pub filter: Option<FilterSpec>,
    /// BufReader capacity and message buffer size; 0 = the reader's default constructor
    pub buf_cap: usize,
    pub msg_max: usize,
    /// `msg_max` is deliberately smaller than the largest declared total of the medium (a stream
    /// that does not keep the promise the reader was configured with); the minimiser keeps it so
    pub tight_max: bool,
    pub script: Vec<Dec>,
    /// executor choices (async scenario)
    pub exec: Vec<u8>,
    /// further reader tasks sharing the executor: (medium, script)
    pub tasks: Vec<(Vec<u8>, Vec<Dec>)>,
    /// scenario parameters (cut offsets, split points, merge history, ...)
    pub aux: Vec<u64>,
    /// second medium (e.g. clean reference for junk scenarios)
    pub medium2: Vec<u8>,
    pub gen: Option<GenInfo>,
    pub notes: Vec<String>,
    pub seed: u64,
    pub run: u64,
}

impl StreamCase {
    pub fn to_json(&self) -> J {
        json!({
            "kind": "stream",
            "property": self.prop,
            "mode": self.mode,
            "storage": self.storage,
            "medium": bytes_to_json(&self.medium),
            "medium_len": self.medium.len(),
            "medium2": bytes_to_json(&self.medium2),
            "filter": self.filter.as_ref().map(|f| f.to_json()),
            "buf_cap": self.buf_cap,
            "msg_max": self.msg_max,
            "tight_max": self.tight_max,
            "script": script_to_json(&self.script),
            "exec": self.exec,
            "tasks": self.tasks.iter().map(|(m, s)| json!({"medium": bytes_to_json(m), "script": script_to_json(s)})).collect::<Vec<_>>(),
            "aux": self.aux,
            "notes": self.notes,
            "provenance": {"seed": self.seed, "run": self.run},
            "gen": self.gen.as_ref().map(|g| json!({
                "policy": g.policy.to_json(),
                // as a string: a u64 does not survive a JSON number
                "sched_seed": g.sched_seed.to_string(),
                "co_policies": g.co_policies.iter().map(|p| p.to_json()).collect::<Vec<_>>(),
            })),
        })
    }
    pub fn from_json(v: &J) -> StreamCase {
        StreamCase {
            prop: v["property"].as_str().unwrap_or("").into(),
            mode: v["mode"].as_str().unwrap_or("").into(),
            storage: v["storage"].as_bool().unwrap_or(false),
            medium: bytes_from_json(&v["medium"]),
            medium2: bytes_from_json(&v["medium2"]),
            filter: FilterSpec::from_json(&v["filter"]),
            buf_cap: v["buf_cap"].as_u64().unwrap_or(0) as usize,
            msg_max: v["msg_max"].as_u64().unwrap_or(0) as usize,
            tight_max: v["tight_max"].as_bool().unwrap_or(false),
            script: script_from_json(&v["script"]),
            exec: v["exec"].as_array().map(|a| a.iter().map(|x| x.as_u64().unwrap_or(0) as u8).collect()).unwrap_or_default(),
            tasks: v["tasks"]
                .as_array()
                .map(|a| a.iter().map(|t| (bytes_from_json(&t["medium"]), script_from_json(&t["script"]))).collect())
                .unwrap_or_default(),
            aux: v["aux"].as_array().map(|a| a.iter().map(|x| x.as_u64().unwrap_or(0)).collect()).unwrap_or_default(),
            gen: if v["gen"].is_object() {
                Some(GenInfo {
                    policy: Policy::from_json(&v["gen"]["policy"]),
                    sched_seed: v["gen"]["sched_seed"].as_str().and_then(|s| s.parse().ok()).unwrap_or(0),
                    co_policies: v["gen"]["co_policies"].as_array().map(|a| a.iter().map(Policy::from_json).collect()).unwrap_or_default(),
                })
            } else {
                None
            },
            notes: v["notes"].as_array().map(|a| a.iter().filter_map(|s| s.as_str().map(String::from)).collect()).unwrap_or_default(),
            seed: v["provenance"]["seed"].as_u64().unwrap_or(0),
            run: v["provenance"]["run"].as_u64().unwrap_or(0),
        }
    }
    /// short description for evidence samples
    pub fn sample_json(&self) -> J {
        let mut j = self.to_json();
        if self.medium.len() > 96 {
            j["medium"] = json!(format!("{}… ({} bytes)", crate::core::hex(&self.medium[..96]), self.medium.len()));
        }
        if self.medium2.len() > 48 {
            j["medium2"] = json!(format!("{}… ({} bytes)", crate::core::hex(&self.medium2[..48]), self.medium2.len()));
        }
        if self.script.len() > 40 {
            let s: Vec<String> = self.script[..40].iter().map(|d| d.to_json()).collect();
            j["script"] = json!(format!("{} … ({} decisions)", s.join(","), self.script.len()));
        }
        if let Some(t) = j["tasks"].as_array_mut() {
            for x in t.iter_mut() {
                *x = json!("(omitted in sample)");
            }
        }
        j
    }
}
