//! S-FIBEX — C12: loading any FIBEX file ends with a model or a refusal, never a hang or panic.
//!
//! Faults reach this API only through file content at rest (it takes paths): every truncation
//! offset, byte-level damage, structure-aware deletions, file-level faults. Liveness is measured
//! in steps of the XML reader (guarded hook `fibex::verif_hooks`), not in seconds.

use crate::core::{bytes_from_json, bytes_to_json, guarded, panic_site, run_batch, run_seed, RunResult, Stats, Tier, Violation};
use crate::rng::{Fnv, Rng};
use dlt_core::fibex::{gather_fibex_data, verif_hooks, FibexConfig};
use serde_json::{json, Value as J};
use std::path::PathBuf;
use std::sync::atomic::{AtomicU64, Ordering};
use std::sync::OnceLock;

pub const TAG: u64 = 0xC12;

#[derive(Clone, Debug, PartialEq)]
pub enum FileKind {
    Regular,
    Missing,
    Directory,
    SymlinkLoop,
    /// the path string itself is empty
    EmptyPath,
}

#[derive(Clone, Debug)]
pub struct FileSpec {
    pub name: String,
    pub kind: FileKind,
    pub content: Vec<u8>,
}

#[derive(Clone, Debug, Default)]
pub struct FibexCase {
    pub files: Vec<FileSpec>,
    pub notes: Vec<String>,
    pub seed: u64,
    pub run: u64,
}

impl FibexCase {
    pub fn to_json(&self) -> J {
        json!({
            "kind": "fibex",
            "property": "C12",
            "files": self.files.iter().map(|f| json!({
                "name": f.name,
                "file_kind": match f.kind { FileKind::Regular => "regular", FileKind::Missing => "missing", FileKind::Directory => "directory", FileKind::SymlinkLoop => "symlink_loop", FileKind::EmptyPath => "empty_path" },
                "len": f.content.len(),
                "content": bytes_to_json(&f.content),
                "text": if f.content.len() <= 600 { String::from_utf8_lossy(&f.content).into_owned() } else { format!("{}…", String::from_utf8_lossy(&f.content[..600])) },
            })).collect::<Vec<_>>(),
            "notes": self.notes,
            "provenance": {"seed": self.seed, "run": self.run},
        })
    }
    pub fn from_json(v: &J) -> FibexCase {
        FibexCase {
            files: v["files"]
                .as_array()
                .map(|a| {
                    a.iter()
                        .map(|f| FileSpec {
                            name: f["name"].as_str().unwrap_or("f.xml").into(),
                            kind: match f["file_kind"].as_str().unwrap_or("regular") {
                                "missing" => FileKind::Missing,
                                "directory" => FileKind::Directory,
                                "symlink_loop" => FileKind::SymlinkLoop,
                                "empty_path" => FileKind::EmptyPath,
                                _ => FileKind::Regular,
                            },
                            content: bytes_from_json(&f["content"]),
                        })
                        .collect()
                })
                .unwrap_or_default(),
            notes: v["notes"].as_array().map(|a| a.iter().filter_map(|s| s.as_str().map(String::from)).collect()).unwrap_or_default(),
            seed: v["provenance"]["seed"].as_u64().unwrap_or(0),
            run: v["provenance"]["run"].as_u64().unwrap_or(0),
        }
    }
    pub fn sample_json(&self) -> J {
        let mut j = self.to_json();
        if let Some(a) = j["files"].as_array_mut() {
            for f in a {
                f["content"] = json!("(see text)");
            }
        }
        j
    }
}

// ---------------------------------------------------------------------------------------------
// document generator
// ---------------------------------------------------------------------------------------------

const SIGNAL_NAMES: &[&str] = &[
    "S_BOOL", "S_SINT8", "S_UINT8", "S_SINT16", "S_UINT16", "S_SINT32", "S_UINT32", "S_SINT64", "S_UINT64", "S_FLOA16", "S_FLOA32",
    "S_FLOA64", "S_STRG_ASCII", "S_STRG_UTF8", "S_RAWD", "S_RAW", "S_UNKNOWN",
];
const BASE_TYPES: &[&str] = &[
    "A_UINT8", "A_INT8", "A_SINT8", "A_UINT16", "A_INT16", "A_UINT32", "A_INT32", "A_UINT64", "A_INT64", "A_FLOAT32", "A_FLOAT64",
    "A_ASCIISTRING", "A_UNICODE2STRING", "A_BYTEFIELD",
];

/// a long text whose multi-byte characters sit at every residue around the usual size limits
fn long_text(r: &mut Rng) -> String {
    let n = *r.pick(&[200usize, 255, 256, 1000, 1020, 1021, 1022, 1023, 1024, 1025, 2048, 4095, 4096, 8192, 70_000]) + r.below(5);
    let unit: &str = *r.pick(&["\u{b0}C ", "\u{65e5}\u{672c}", "\u{1d11e}", "\u{e4}", "ab\u{20ac}", "x"]);
    let mut s = "p".repeat(r.below(4));
    while s.len() < n {
        s.push_str(unit);
    }
    s
}

/// a keyword: an identifier-like string literal of the crate's source (type names, signal names,
/// message kinds the loader knows), safe inside XML text and attribute values
fn kw(r: &mut Rng) -> String {
    for _ in 0..8 {
        let s = crate::dict::string(r);
        if !s.is_empty() && s.len() <= 32 && s.bytes().all(|b| b.is_ascii_alphanumeric() || b == b'_' || b == b'-' || b == b':' || b == b'.') {
            return s.to_string();
        }
    }
    "DLT_TYPE_LOG".to_string()
}

fn text_variant(r: &mut Rng) -> String {
    if r.chance(1, 25) {
        return long_text(r);
    }
    if r.chance(1, 12) {
        // a string literal of the crate's source (element names, type names, keywords), XML-escaped
        return crate::dict::string(r).replace('&', "&amp;").replace('<', "&lt;").replace('>', "&gt;");
    }
    match r.below(9) {
        0 => String::new(),
        1 => "plain text".into(),
        2 => "a &amp; b &lt;c&gt; &quot;d&quot; &#65;&#x42;".into(),
        3 => "<![CDATA[ raw <stuff> & more ]]>".into(),
        4 => "ümläut 日本 𝄞".into(),
        5 => "  spaced \n multi-line\t".into(),
        6 => "&unknown;".into(),
        7 => "trailing: ".into(),
        _ => format!("v{}", r.below(1000)),
    }
}

pub fn gen_documents(r: &mut Rng) -> Vec<Vec<u8>> {
    let fx = *r.pick(&["fx:", "fx:", "fx:", "", "f-x:"]);
    let ho = *r.pick(&["ho:", "ho:", "", "h:"]);
    let npdu = match r.below(5) {
        0 => 0,
        1 => 1,
        _ => r.below(31),
    };
    let nframe = r.below(8);
    let nsig = r.below(6);
    let ncod = r.below(5);
    let ind = if r.bool() { "  " } else { "" };
    let nl = if r.chance(1, 8) { "\r\n" } else { "\n" };

    let mut pdus = vec![];
    for i in 0..npdu {
        let id = if r.chance(1, 12) && i > 0 { format!("ID_{}", 4000 + r.below(i)) } else { format!("ID_{}", 4000 + i) };
        let mut s = String::new();
        s += &format!("{ind}<{fx}PDU ID=\"{id}\">{nl}");
        if r.chance(9, 10) {
            s += &format!("{ind}{ind}<{ho}SHORT-NAME>{id}</{ho}SHORT-NAME>{nl}");
        }
        match r.below(6) {
            0 => {}
            1 => s += &format!("{ind}{ind}<{ho}DESC/>{nl}"),
            _ => s += &format!("{ind}{ind}<{ho}DESC>{}</{ho}DESC>{nl}", text_variant(r)),
        }
        if r.chance(19, 20) {
            let bl = if r.chance(1, 10) { crate::dict::num(r) } else { r.below(64) as u64 };
            s += &format!("{ind}{ind}<{fx}BYTE-LENGTH>{}</{fx}BYTE-LENGTH>{nl}", bl);
        }
        s += &format!("{ind}{ind}<{fx}PDU-TYPE>OTHER</{fx}PDU-TYPE>{nl}");
        let ns = r.below(4);
        if ns > 0 {
            s += &format!("{ind}{ind}<{fx}SIGNAL-INSTANCES>{nl}");
            let mut seqs: Vec<usize> = (0..ns).collect();
            for k in (1..seqs.len()).rev() {
                let j = r.below(k + 1);
                seqs.swap(k, j);
            }
            for (k, seq) in seqs.iter().enumerate() {
                let sref = if nsig > 0 && r.chance(1, 3) {
                    format!("SIG_{}", r.below(nsig))
                } else if r.chance(1, 6) {
                    kw(r)
                } else {
                    (*r.pick(SIGNAL_NAMES)).to_string()
                };
                s += &format!("{ind}{ind}{ind}<{fx}SIGNAL-INSTANCE ID=\"{id}_S{k}\">{nl}");
                if r.bool() {
                    s += &format!("{ind}{ind}{ind}{ind}<{fx}SEQUENCE-NUMBER>{seq}</{fx}SEQUENCE-NUMBER>{nl}{ind}{ind}{ind}{ind}<{fx}SIGNAL-REF ID-REF=\"{sref}\"/>{nl}");
                } else {
                    s += &format!("{ind}{ind}{ind}{ind}<{fx}SIGNAL-REF ID-REF=\"{sref}\"></{fx}SIGNAL-REF>{nl}{ind}{ind}{ind}{ind}<{fx}SEQUENCE-NUMBER>{seq}</{fx}SEQUENCE-NUMBER>{nl}");
                }
                s += &format!("{ind}{ind}{ind}</{fx}SIGNAL-INSTANCE>{nl}");
            }
            s += &format!("{ind}{ind}</{fx}SIGNAL-INSTANCES>{nl}");
        }
        s += &format!("{ind}</{fx}PDU>{nl}");
        if r.chance(1, 10) {
            s += &format!("{ind}<!-- a comment with <tags> & -- not -->{nl}");
        }
        pdus.push(s);
    }
    let mut frames = vec![];
    for i in 0..nframe {
        let id = format!("ID_{}", 60 + i);
        let mut s = String::new();
        s += &format!("{ind}<{fx}FRAME ID=\"{id}\">{nl}{ind}{ind}<{ho}SHORT-NAME>{}</{ho}SHORT-NAME>{nl}", text_variant(r));
        s += &format!("{ind}{ind}<{fx}BYTE-LENGTH>{}</{fx}BYTE-LENGTH>{nl}{ind}{ind}<{fx}FRAME-TYPE>OTHER</{fx}FRAME-TYPE>{nl}", r.below(100));
        let np = if npdu == 0 { r.below(2) } else { r.below(6) };
        if np > 0 {
            s += &format!("{ind}{ind}<{fx}PDU-INSTANCES>{nl}");
            for k in 0..np {
                let pref = if npdu > 0 && r.chance(19, 20) { format!("ID_{}", 4000 + r.below(npdu)) } else { "ID_NOWHERE".to_string() };
                s += &format!("{ind}{ind}{ind}<{fx}PDU-INSTANCE ID=\"P_{i}_{k}\">{nl}{ind}{ind}{ind}{ind}<{fx}PDU-REF ID-REF=\"{pref}\"/>{nl}{ind}{ind}{ind}{ind}<{fx}SEQUENCE-NUMBER>{}</{fx}SEQUENCE-NUMBER>{nl}{ind}{ind}{ind}</{fx}PDU-INSTANCE>{nl}", np - k);
            }
            s += &format!("{ind}{ind}</{fx}PDU-INSTANCES>{nl}");
        }
        if r.chance(2, 3) {
            s += &format!("{ind}{ind}<{fx}MANUFACTURER-EXTENSION>{nl}");
            if r.chance(4, 5) {
                let (mt, mi) = if r.chance(1, 3) { (kw(r), kw(r)) } else { ("DLT_TYPE_LOG".to_string(), "DLT_LOG_WARN".to_string()) };
                s += &format!("{ind}{ind}{ind}<MESSAGE_TYPE>{mt}</MESSAGE_TYPE>{nl}{ind}{ind}{ind}<MESSAGE_INFO>{mi}</MESSAGE_INFO>{nl}");
            }
            if r.chance(4, 5) {
                s += &format!("{ind}{ind}{ind}<APPLICATION_ID>A{}</APPLICATION_ID>{nl}", r.below(3));
            }
            if r.chance(4, 5) {
                s += &format!("{ind}{ind}{ind}<CONTEXT_ID>C{}</CONTEXT_ID>{nl}", r.below(3));
            }
            if r.chance(1, 6) {
                s += &format!("{ind}{ind}{ind}<MESSAGE_LINE_NUMBER>66</MESSAGE_LINE_NUMBER>{nl}");
            }
            s += &format!("{ind}{ind}</{fx}MANUFACTURER-EXTENSION>{nl}");
        }
        s += &format!("{ind}</{fx}FRAME>{nl}");
        frames.push(s);
    }
    let mut signals = vec![];
    for i in 0..nsig {
        let cref = if ncod > 0 { format!("COD_{}", r.below(ncod)) } else { "COD_X".into() };
        signals.push(format!("{ind}<{fx}SIGNAL ID=\"SIG_{i}\">{nl}{ind}{ind}<{ho}SHORT-NAME>s{i}</{ho}SHORT-NAME>{nl}{ind}{ind}<{fx}CODING-REF ID-REF=\"{cref}\"/>{nl}{ind}</{fx}SIGNAL>{nl}"));
    }
    let mut codings = vec![];
    for i in 0..ncod {
        let bt_owned = if r.chance(1, 6) { kw(r) } else { (*r.pick(BASE_TYPES)).to_string() };
        let bt = bt_owned.as_str();
        let ct = if r.bool() {
            format!("<{ho}CODED-TYPE {ho}BASE-DATA-TYPE=\"{bt}\" CATEGORY=\"STANDARD-LENGTH-TYPE\"/>")
        } else {
            format!("<{ho}CODED-TYPE {ho}BASE-DATA-TYPE=\"{bt}\"><{ho}BIT-LENGTH>8</{ho}BIT-LENGTH></{ho}CODED-TYPE>")
        };
        codings.push(format!("{ind}<{fx}CODING ID=\"COD_{i}\">{nl}{ind}{ind}<{ho}SHORT-NAME>c{i}</{ho}SHORT-NAME>{nl}{ind}{ind}{ct}{nl}{ind}</{fx}CODING>{nl}"));
    }
    // sections, shuffled, split over 1..3 files
    let mut sections: Vec<String> = vec![];
    if !pdus.is_empty() || r.bool() {
        sections.push(format!("<{fx}PDUS>{nl}{}</{fx}PDUS>{nl}", pdus.concat()));
    }
    if !frames.is_empty() || r.bool() {
        sections.push(format!("<{fx}FRAMES>{nl}{}</{fx}FRAMES>{nl}", frames.concat()));
    }
    if !signals.is_empty() {
        sections.push(format!("<{fx}SIGNALS>{nl}{}</{fx}SIGNALS>{nl}", signals.concat()));
    }
    if !codings.is_empty() {
        sections.push(format!("<{fx}PROCESSING-INFORMATION><{fx}CODINGS>{nl}{}</{fx}CODINGS></{fx}PROCESSING-INFORMATION>{nl}", codings.concat()));
    }
    for k in (1..sections.len()).rev() {
        let j = r.below(k + 1);
        sections.swap(k, j);
    }
    let nfiles = (1 + r.below(3)).min(sections.len().max(1));
    let mut per_file: Vec<Vec<String>> = vec![vec![]; nfiles];
    for (i, s) in sections.into_iter().enumerate() {
        let f = if i < nfiles { i } else { r.below(nfiles) };
        per_file[f].push(s);
    }
    per_file
        .into_iter()
        .map(|secs| {
            let mut d = String::new();
            if r.chance(1, 10) {
                d.push('\u{feff}');
            }
            if r.chance(9, 10) {
                d += &format!("<?xml version=\"1.0\" encoding=\"UTF-8\"?>{nl}");
            }
            if r.chance(1, 15) {
                d += &format!("<!DOCTYPE FIBEX [ <!ENTITY e \"x\"> ]>{nl}");
            }
            d += &format!("<{fx}FIBEX xmlns:ho=\"http://www.asam.net/xml\" xmlns:fx=\"http://www.asam.net/xml/fbx\">{nl}<{fx}PROJECT ID=\"P\"><{ho}SHORT-NAME>n</{ho}SHORT-NAME></{fx}PROJECT>{nl}<{fx}ELEMENTS>{nl}");
            d += &secs.concat();
            d += &format!("</{fx}ELEMENTS>{nl}</{fx}FIBEX>{nl}");
            d.into_bytes()
        })
        .collect()
}

const STRUCT_TARGETS: &[&str] = &[
    "</fx:PDU>", "</fx:FRAME>", "</fx:SIGNAL-INSTANCE>", "</fx:PDU-INSTANCE>", "</ho:DESC>", "</ho:SHORT-NAME>", " ID=\"", " ID-REF=\"",
    "<fx:BYTE-LENGTH>", "</fx:BYTE-LENGTH>", "<fx:SEQUENCE-NUMBER>", "</fx:SEQUENCE-NUMBER>", "\"", ">", "<", "/", "</fx:MANUFACTURER-EXTENSION>",
    "</fx:FIBEX>", "<fx:SIGNAL-REF", "<fx:PDU-REF", "BASE-DATA-TYPE", "</fx:CODING>", "</fx:SIGNAL>", "-->", "]]>", ";", "&",
];

/// (start, end) of the value of every attribute spelled `pat` (pattern includes the opening quote)
fn attr_values(d: &[u8], pat: &[u8]) -> Vec<(usize, usize)> {
    find_all(d, pat)
        .into_iter()
        .filter_map(|p| {
            let s = p + pat.len();
            (s..d.len()).find(|i| d[*i] == b'"').map(|e| (s, e))
        })
        .collect()
}

fn find_all(h: &[u8], n: &[u8]) -> Vec<usize> {
    if n.is_empty() || h.len() < n.len() {
        return vec![];
    }
    (0..=h.len() - n.len()).filter(|i| &h[*i..*i + n.len()] == n).collect()
}

/// damage one document; returns a note
pub fn damage(r: &mut Rng, d: &mut Vec<u8>, st: &mut Stats) -> String {
    if d.is_empty() {
        return "nothing to damage".into();
    }
    match r.below(13) {
        0 | 1 => {
            // half of the cuts fall right behind a '>' (a torn write is as likely to end a file at
            // a tag boundary as anywhere else, and that is where parser state changes)
            let gts: Vec<usize> = (0..d.len()).filter(|i| d[*i] == b'>').collect();
            let at = if r.bool() && !gts.is_empty() { *r.pick(&gts) + 1 } else { r.below(d.len()) };
            d.truncate(at);
            st.inc("F-TRUNC");
            format!("F-TRUNC at {}", at)
        }
        10 => {
            // rewire a reference (or rename an element) to the id of some other element of any kind:
            // self references, cycles, references to the wrong kind, duplicated ids
            let ids: Vec<(usize, usize)> = attr_values(d, b" ID=\"");
            let mut targets: Vec<(usize, usize)> = attr_values(d, b"ID-REF=\"");
            if ids.is_empty() {
                return "no id found".into();
            }
            if targets.is_empty() || r.chance(1, 4) {
                targets = ids.clone();
            }
            let (ts, te) = *r.pick(&targets);
            // prefer an id close by (the enclosing element, a neighbour): that is what makes cycles
            let near: Vec<&(usize, usize)> = ids.iter().filter(|(s, _)| (*s as i64 - ts as i64).abs() < 400).collect();
            let (is, ie) = if !near.is_empty() && r.bool() { **r.pick(&near) } else { *r.pick(&ids) };
            let val = d[is..ie].to_vec();
            let note = format!("F-REF value at {} := {:?}", ts, String::from_utf8_lossy(&val));
            d.splice(ts..te, val);
            st.inc("F-REF");
            note
        }
        11 => {
            // nest a copy of one complete element inside another element (after some tag end)
            let starts: Vec<usize> = (0..d.len().saturating_sub(2)).filter(|i| d[*i] == b'<' && d[*i + 1].is_ascii_alphabetic()).collect();
            if starts.is_empty() {
                return "no element found".into();
            }
            let s0 = *r.pick(&starts);
            let name_end = (s0 + 1..d.len()).find(|i| !(d[*i].is_ascii_alphanumeric() || d[*i] == b':' || d[*i] == b'-' || d[*i] == b'_')).unwrap_or(d.len());
            let name = d[s0 + 1..name_end].to_vec();
            let mut close = b"</".to_vec();
            close.extend_from_slice(&name);
            close.push(b'>');
            let Some(e0) = find_all(&d[s0..], &close).first().map(|x| s0 + x + close.len()) else { return "element without end tag".into() };
            let blk = d[s0..e0].to_vec();
            let gts: Vec<usize> = (0..d.len()).filter(|i| d[*i] == b'>').collect();
            // inside itself (right after its own start tag), or anywhere
            let at = if r.bool() { (s0..e0).find(|i| d[*i] == b'>').map(|x| x + 1).unwrap_or(e0) } else { *r.pick(&gts) + 1 };
            let note = format!("F-NEST copy of <{}> ({} bytes) inserted at {}", String::from_utf8_lossy(&name), blk.len(), at);
            let tail = d.split_off(at);
            d.extend_from_slice(&blk);
            d.extend(tail);
            st.inc("F-NEST");
            note
        }
        12 => {
            // nesting depth: the same start tag many times over (no end tags), or a long run of one byte
            let at = r.below(d.len());
            let n = *r.pick(&[64usize, 1000, 20_000, 200_000]);
            let unit: &[u8] = *r.pick(&[&b"<a>"[..], b"<fx:PDU ID=\"x\">", b"<![CDATA[", b"&", b"<!--", b" "]);
            let mut blk = Vec::with_capacity(n * unit.len());
            for _ in 0..n {
                blk.extend_from_slice(unit);
            }
            let tail = d.split_off(at);
            d.extend_from_slice(&blk);
            d.extend(tail);
            st.inc("F-DEEP");
            format!("F-DEEP {} x {:?} at {}", n, String::from_utf8_lossy(unit), at)
        }
        2 => {
            let n = 1 + r.below(4);
            for _ in 0..n {
                let at = r.below(d.len());
                d[at] ^= 1 << r.below(8);
            }
            st.inc("F-FLIP");
            format!("F-FLIP x{}", n)
        }
        3 => {
            let n = 1 + r.below(4);
            for _ in 0..n {
                let at = r.below(d.len());
                d[at] = *r.pick(&[0u8, 0xff, b'<', b'>', b'&', b'"', b'/', b' ', 0x80]);
            }
            st.inc("F-BYTE");
            format!("F-BYTE x{}", n)
        }
        4 => {
            let at = r.below(d.len());
            let n = (1 + r.geometric(20, 400)).min(d.len() - at);
            d.drain(at..at + n);
            st.inc("F-DROP");
            format!("F-DROP {}+{}", at, n)
        }
        5 => {
            let at = r.below(d.len());
            let n = (1 + r.geometric(20, 400)).min(d.len() - at);
            let blk = d[at..at + n].to_vec();
            let tail = d.split_off(at);
            d.extend_from_slice(&blk);
            d.extend(tail);
            st.inc("F-DUP");
            format!("F-DUP {}+{}", at, n)
        }
        6 => {
            // non-numeric / overflowing numbers
            let digits: Vec<usize> = (0..d.len()).filter(|i| d[*i].is_ascii_digit() && *i > 0 && d[*i - 1] == b'>').collect();
            if digits.is_empty() {
                return "no number found".into();
            }
            let at = *r.pick(&digits);
            let rep: &[u8] = *r.pick(&[
                &b"x"[..], b"-1", b"99999999999999999999999", b" ", b"1e3", b"", b"18446744073709551615", b"18446744073709551614", b"9223372036854775807",
                b"4611686018427387904", b"4294967296", b"4294967295", b"65536", b"255", b"+7", b"0x10", b"007",
            ]);
            d.splice(at..at + 1, rep.iter().cloned());
            st.inc("F-NUM");
            format!("F-NUM at {} -> {:?}", at, String::from_utf8_lossy(rep))
        }
        _ => {
            // structure-aware deletion (prefix-agnostic: try the fx:/ho: spelling and the bare one)
            for _ in 0..6 {
                let t = *r.pick(STRUCT_TARGETS);
                let mut hits = find_all(d, t.as_bytes());
                if hits.is_empty() {
                    let bare = t.replace("fx:", "").replace("ho:", "");
                    hits = find_all(d, bare.as_bytes());
                    if !hits.is_empty() {
                        let at = *r.pick(&hits);
                        d.drain(at..at + bare.len());
                        st.inc("F-STRUCT");
                        return format!("F-STRUCT removed {:?} at {}", bare, at);
                    }
                    continue;
                }
                let at = *r.pick(&hits);
                d.drain(at..at + t.len());
                st.inc("F-STRUCT");
                // one time in four the file also ends right behind the damaged element: at the
                // next '>' (or the one after it)
                if r.chance(1, 4) {
                    let gts: Vec<usize> = (at..d.len()).filter(|i| d[*i] == b'>').take(3).collect();
                    if !gts.is_empty() {
                        let cut = *r.pick(&gts) + 1;
                        d.truncate(cut);
                        st.inc("F-TRUNC");
                        st.inc("F-STRUCT+cut");
                        return format!("F-STRUCT removed {:?} at {}, then F-TRUNC at {}", t, at, cut);
                    }
                }
                return format!("F-STRUCT removed {:?} at {}", t, at);
            }
            "no structure target found".into()
        }
    }
}

pub fn shipped_documents() -> Vec<(String, Vec<u8>)> {
    let mut v = vec![];
    for n in ["dlt-messages.xml", "robustness.xml"] {
        if let Ok(b) = std::fs::read(format!("/repo/tests/{}", n)) {
            v.push((n.to_string(), b));
        }
    }
    v
}

pub fn generate(seed: u64, run: u64, _tier: Tier, st: &mut Stats) -> FibexCase {
    let s = run_seed(seed, TAG, run);
    let mut rw = Rng::fork(s, 1);
    let mut rf = Rng::fork(s, 2);
    let mut case = FibexCase { seed, run, ..Default::default() };
    // workload
    let docs: Vec<Vec<u8>> = if rw.chance(1, 4) {
        let sh = shipped_documents();
        if sh.is_empty() {
            st.inc("shipped_documents_missing");
            gen_documents(&mut rw)
        } else {
            st.inc("doc_shipped");
            let pick = rw.below(sh.len() + 1);
            if pick == sh.len() {
                sh.into_iter().map(|x| x.1).collect()
            } else {
                vec![sh[pick].1.clone()]
            }
        }
    } else {
        st.inc("doc_generated");
        gen_documents(&mut rw)
    };
    for (i, d) in docs.into_iter().enumerate() {
        case.files.push(FileSpec { name: format!("doc{}.xml", i), kind: FileKind::Regular, content: d });
    }
    // faults
    match rf.below(12) {
        0 => st.inc("load_clean"),
        1 => {
            // file-level fault
            let k = rf.below(7);
            let note = match k {
                0 => {
                    case.files.clear();
                    "empty path list"
                }
                1 => {
                    case.files.push(FileSpec { name: "nonexistent.xml".into(), kind: FileKind::Missing, content: vec![] });
                    "nonexistent path added"
                }
                2 => {
                    case.files.insert(0, FileSpec { name: "".into(), kind: FileKind::EmptyPath, content: vec![] });
                    "empty path string first"
                }
                3 => {
                    case.files.push(FileSpec { name: "adir".into(), kind: FileKind::Directory, content: vec![] });
                    "a directory"
                }
                4 => {
                    case.files.push(FileSpec { name: "empty.xml".into(), kind: FileKind::Regular, content: vec![] });
                    "an empty file"
                }
                5 => {
                    case.files.insert(0, FileSpec { name: "loop.xml".into(), kind: FileKind::SymlinkLoop, content: vec![] });
                    "a symlink loop"
                }
                _ => {
                    let i = rf.below(case.files.len().max(1));
                    if let Some(f) = case.files.get_mut(i) {
                        f.kind = FileKind::Missing;
                    }
                    "one file of the set missing"
                }
            };
            st.inc("F-FILE");
            case.notes.push(format!("F-FILE {}", note));
        }
        _ => {
            let n = 1 + rf.geometric(1, 4);
            for _ in 0..n {
                if case.files.is_empty() {
                    break;
                }
                let i = rf.below(case.files.len());
                let note = damage(&mut rf, &mut case.files[i].content, st);
                case.notes.push(format!("{}: {}", case.files[i].name, note));
            }
            // re-encode as UTF-16 now and then
            if rf.chance(1, 40) && !case.files.is_empty() {
                let i = rf.below(case.files.len());
                let s = String::from_utf8_lossy(&case.files[i].content).into_owned();
                let mut out = vec![0xff, 0xfe];
                for u in s.encode_utf16() {
                    out.extend_from_slice(&u.to_le_bytes());
                }
                case.files[i].content = out;
                st.inc("F-UTF16");
                case.notes.push(format!("{}: re-encoded as UTF-16LE", case.files[i].name));
            }
        }
    }
    case
}

// ---------------------------------------------------------------------------------------------
// execution
// ---------------------------------------------------------------------------------------------

static LOAD_ID: AtomicU64 = AtomicU64::new(0);

fn base_dir() -> PathBuf {
    static BASE: OnceLock<PathBuf> = OnceLock::new();
    BASE.get_or_init(|| {
        let root = if std::path::Path::new("/dev/shm").is_dir() { PathBuf::from("/dev/shm") } else { std::env::temp_dir() };
        let d = root.join(format!("dltsim-fibex-{}", std::process::id()));
        let _ = std::fs::create_dir_all(&d);
        d
    })
    .clone()
}

static BASE_USED: std::sync::atomic::AtomicBool = std::sync::atomic::AtomicBool::new(false);

pub fn cleanup_base() {
    if BASE_USED.load(Ordering::Relaxed) {
        let _ = std::fs::remove_dir_all(base_dir());
    }
}

pub struct Exec {
    pub violations: Vec<Violation>,
    pub hist: u64,
    pub model: bool,
    pub steps: u64,
}

pub fn execute(case: &FibexCase, st: &mut Stats) -> Exec {
    let id = LOAD_ID.fetch_add(1, Ordering::Relaxed);
    BASE_USED.store(true, Ordering::Relaxed);
    let dir = base_dir().join(format!("l{}", id));
    let _ = std::fs::create_dir_all(&dir);
    let mut paths = vec![];
    let mut total = 0u64;
    for (i, f) in case.files.iter().enumerate() {
        let p = dir.join(format!("{}_{}", i, if f.name.is_empty() { "x" } else { &f.name }));
        match f.kind {
            FileKind::Regular => {
                let _ = std::fs::write(&p, &f.content);
                total += f.content.len() as u64;
                paths.push(p.to_string_lossy().into_owned());
            }
            FileKind::Missing => paths.push(p.to_string_lossy().into_owned()),
            FileKind::Directory => {
                let _ = std::fs::create_dir_all(&p);
                paths.push(p.to_string_lossy().into_owned());
            }
            FileKind::SymlinkLoop => {
                let _ = std::os::unix::fs::symlink(&p, &p);
                paths.push(p.to_string_lossy().into_owned());
            }
            FileKind::EmptyPath => paths.push(String::new()),
        }
    }
    // a file of n bytes yields at most n + 1 XML events
    let budget = 2 * total + 64;
    // 1 load in 8 (decided by the content): the same path list once more first — a second load
    // on the same thread must not be influenced by the first, and gets the same step budget
    let twice = (total + case.files.len() as u64) % 8 == 5;
    if twice {
        st.inc("loads_repeated");
        verif_hooks::set_budget(Some(budget));
        let p2 = paths.clone();
        if let Err(p) = guarded(|| gather_fibex_data(FibexConfig { fibex_file_paths: p2 }).is_some()) {
            let _ = std::fs::remove_dir_all(&dir);
            verif_hooks::set_budget(None);
            return Exec { violations: vec![Violation::new("C12.b", &format!("panic@{}", panic_site(&p)), format!("gather_fibex_data panicked: {}", p))], hist: 0, model: false, steps: 0 };
        }
        if verif_hooks::exhausted() {
            let _ = std::fs::remove_dir_all(&dir);
            verif_hooks::set_budget(None);
            return Exec { violations: vec![Violation::new("C12.c", "step-budget-exhausted", format!("the load used more than {} XML reader steps for {} bytes of input: a loop does not end", budget, total))], hist: 0, model: false, steps: 0 };
        }
    }
    // the same file listed twice, now and then
    if !paths.is_empty() && (total + 3 * case.files.len() as u64) % 16 == 7 {
        st.inc("path_listed_twice");
        let dup = paths[0].clone();
        paths.push(dup);
    }
    verif_hooks::set_budget(Some(budget));
    let r = guarded(|| gather_fibex_data(FibexConfig { fibex_file_paths: paths }).map(|m| (m.frame_map.len(), m.frame_map_with_key.len())));
    let exhausted = verif_hooks::exhausted();
    let steps = verif_hooks::used();
    verif_hooks::set_budget(None);
    let _ = std::fs::remove_dir_all(&dir);

    let mut v = vec![];
    let mut h = Fnv::default();
    let mut model = false;
    match &r {
        Err(p) => v.push(Violation::new("C12.b", &format!("panic@{}", panic_site(p)), format!("gather_fibex_data panicked: {}", p))),
        Ok(Some((a, b))) => {
            model = true;
            st.inc("answer_model");
            h.u64(*a as u64);
            h.u64(*b as u64);
        }
        Ok(None) => {
            st.inc("answer_refusal");
            h.bytes(b"none");
        }
    }
    if exhausted {
        v.push(Violation::new("C12.c", "step-budget-exhausted", format!("the load used more than {} XML reader steps for {} bytes of input: a loop does not end", budget, total)));
    }
    h.u64(steps);
    st.add("xml_steps", steps);
    st.inc("loads");
    Exec { violations: v, hist: h.0, model, steps }
}

pub fn eval(case: &FibexCase) -> Vec<Violation> {
    let mut st = Stats::default();
    execute(case, &mut st).violations
}

pub fn one_run(seed: u64, run: u64, tier: Tier, st: &mut Stats) -> (RunResult, Option<FibexCase>) {
    let case = generate(seed, run, tier, st);
    let ex = execute(&case, st);
    let mut key = Fnv::default();
    for f in &case.files {
        key.str(&f.name);
        key.bytes(&f.content);
        key.u64(f.kind.clone() as u64);
    }
    st.distinct.insert(key.0);
    if !case.notes.is_empty() && case.files.iter().any(|f| f.content.len() > 64) {
        st.nontrivial.insert(key.0);
    }
    let failing = if ex.violations.is_empty() { None } else { Some(case) };
    (RunResult { violations: ex.violations, hist: ex.hist }, failing)
}

/// every truncation offset 0..=len of every enumerated document (exhaustive per document)
fn enumerated_docs(tier: Tier, seed: u64) -> (Vec<(String, Vec<u8>)>, Vec<u64>) {
    let mut docs: Vec<(String, Vec<u8>)> = shipped_documents();
    // generated documents: a few in the quick tier, many in the thorough one
    let ngen = match tier {
        Tier::Quick => 6,
        Tier::Thorough => 400,
    };
    let mut r = Rng::fork(run_seed(seed, TAG, u64::MAX), 7);
    let mut g = 0;
    let mut guard = 0;
    while g < ngen && guard < ngen * 20 {
        guard += 1;
        for d in gen_documents(&mut r) {
            if d.len() <= 16 * 1024 && d.len() > 200 && g < ngen {
                docs.push((format!("generated{}.xml", g), d));
                g += 1;
            }
        }
    }
    // flat list of (doc index, cut)
    let mut offs = vec![0u64];
    for (_, d) in &docs {
        offs.push(offs.last().unwrap() + d.len() as u64 + 1);
    }
    (docs, offs)
}

fn cut_case(docs: &[(String, Vec<u8>)], offs: &[u64], seed: u64, i: u64) -> (FibexCase, usize, String) {
    let di = offs.partition_point(|o| *o <= i) - 1;
    let cut = (i - offs[di]) as usize;
    let (name, d) = &docs[di];
    let case = FibexCase {
        files: vec![FileSpec { name: name.clone(), kind: FileKind::Regular, content: d[..cut].to_vec() }],
        notes: vec![format!("{}: F-TRUNC at {} of {} (enumerated)", name, cut, d.len())],
        seed,
        run: i,
    };
    (case, cut, name.clone())
}

/// the case behind index `idx` of the enumeration (used when such a load kills the process)
pub fn enumerated_case(tier: Tier, seed: u64, idx: u64) -> Option<FibexCase> {
    let (docs, offs) = enumerated_docs(tier, seed);
    if idx >= *offs.last().unwrap() {
        return None;
    }
    Some(cut_case(&docs, &offs, seed, idx).0)
}

pub fn enumerate_cuts(tier: Tier, seed: u64, st: &mut Stats) -> Vec<(Violation, FibexCase)> {
    let (docs, offs) = enumerated_docs(tier, seed);
    if shipped_documents().is_empty() {
        st.inc("shipped_documents_missing");
    }
    let total = *offs.last().unwrap();
    let docs_ref = &docs;
    let offs_ref = &offs;
    let (s2, fails) = run_batch(total, |i, st| {
        let (case, cut, name) = cut_case(docs_ref, offs_ref, seed, i);
        let ex = execute(&case, st);
        st.inc("enumerated_cuts");
        st.inc("F-TRUNC");
        let mut k = Fnv::default();
        k.str(&name);
        k.u64(cut as u64);
        st.distinct.insert(k.0);
        if cut > 64 {
            st.nontrivial.insert(k.0);
        }
        RunResult { violations: ex.violations, hist: ex.hist }
    });
    let enumerated_docs = docs.len() as u64;
    st.merge(s2);
    st.add("enumerated_documents", enumerated_docs);
    let mut out = vec![];
    for (i, viols) in fails.into_iter().take(50) {
        let case = cut_case(&docs, &offs, seed, i).0;
        for v in viols {
            out.push((v, case.clone()));
        }
    }
    out
}

/// delta debugging over the file set
pub fn minimise(case: &FibexCase, sig: &str) -> FibexCase {
    minimise_with(case, sig, &eval, 4000)
}

pub fn minimise_with(case: &FibexCase, sig: &str, eval: &dyn Fn(&FibexCase) -> Vec<Violation>, budget: usize) -> FibexCase {
    let fails = |c: &FibexCase| eval(c).iter().any(|v| v.sig == sig);
    let mut cur = case.clone();
    if !fails(&cur) {
        return cur;
    }
    // drop whole files
    let mut i = 0;
    while i < cur.files.len() {
        let mut c = cur.clone();
        c.files.remove(i);
        if fails(&c) {
            cur = c;
        } else {
            i += 1;
        }
    }
    let mut budget: usize = budget;
    for fi in 0..cur.files.len() {
        let mut chunk = (cur.files[fi].content.len() / 2).max(1);
        loop {
            let mut i = 0;
            let mut progress = false;
            while i < cur.files[fi].content.len() && budget > 0 {
                let end = (i + chunk).min(cur.files[fi].content.len());
                let mut c = cur.clone();
                c.files[fi].content.drain(i..end);
                budget -= 1;
                if fails(&c) {
                    cur = c;
                    progress = true;
                } else {
                    i = end;
                }
            }
            if budget == 0 {
                break;
            }
            if chunk == 1 {
                if !progress {
                    break;
                }
            } else {
                chunk /= 2;
            }
        }
    }
    cur.notes.push(format!("minimised from {} bytes in {} files", case.files.iter().map(|f| f.content.len()).sum::<usize>(), case.files.len()));
    cur
}
