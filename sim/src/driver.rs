//! Check driver: runs a scenario's seeded batch (twice: without and with a Trace logger), turns
//! failing runs into minimised replay files, re-runs each replay in a fresh process, applies the
//! known-findings file, writes the evidence file and prints the contract lines.

use crate::core::*;
use serde_json::{json, Value as J};
use std::collections::BTreeMap;
use std::time::Instant;

pub trait Scenario: Sync {
    fn prop(&self) -> &'static str;
    fn runs(&self, tier: Tier) -> u64;
    /// runs of the logging pass (Trace-level sink installed)
    fn log_runs(&self, tier: Tier) -> u64;
    fn one_run(&self, seed: u64, run: u64, tier: Tier, st: &mut Stats) -> (RunResult, Option<J>);
    /// deterministic re-evaluation of a materialised case (replay, minimiser)
    fn eval(&self, case: &J) -> Vec<Violation>;
    fn minimise(&self, case: &J, sig: &str) -> J;
    fn evidence(&self, tier: Tier, seed: u64) -> Evidence;
    fn sample(&self, seed: u64, run: u64, tier: Tier) -> J;
    /// additional deterministic enumeration (e.g. every truncation offset); returns failing cases
    fn enumerate(&self, _tier: Tier, _seed: u64, _st: &mut Stats) -> Vec<(Violation, J)> {
        vec![]
    }
    /// the case of seeded run `run`, generated but not executed, complete with the schedule policy
    /// (so that `eval` on it does what `one_run` would have done); used when a run kills its process
    fn case_for_run(&self, seed: u64, run: u64, tier: Tier) -> J;
    /// the case behind index `idx` of the enumeration stage, if the scenario has one
    fn enumerate_case(&self, _tier: Tier, _seed: u64, _idx: u64) -> Option<J> {
        None
    }
    /// minimisation with an evaluation function supplied by the caller (evaluation in a
    /// subprocess for cases that crash or hang the process that evaluates them)
    fn minimise_ext(&self, case: &J, _sig: &str, _eval: &dyn Fn(&J) -> Vec<Violation>, _budget: usize) -> J {
        case.clone()
    }
}

struct Sink;
thread_local! {
    static SINK_BUF: std::cell::RefCell<String> = const { std::cell::RefCell::new(String::new()) };
}
pub static LOGGED: std::sync::atomic::AtomicU64 = std::sync::atomic::AtomicU64::new(0);
impl log::Log for Sink {
    fn enabled(&self, _: &log::Metadata) -> bool {
        true
    }
    fn log(&self, record: &log::Record) {
        // format every record so that the argument expressions really run
        SINK_BUF.with(|b| {
            use std::fmt::Write;
            let mut b = b.borrow_mut();
            b.clear();
            let _ = write!(b, "{}", record.args());
        });
        LOGGED.fetch_add(1, std::sync::atomic::Ordering::Relaxed);
    }
    fn flush(&self) {}
}
static SINK: Sink = Sink;

pub fn enable_trace_logger() {
    let _ = log::set_logger(&SINK);
    log::set_max_level(log::LevelFilter::Trace);
}

pub fn seed_from_env() -> u64 {
    std::env::var("VERIF_SEED").ok().and_then(|s| s.trim().parse::<u64>().ok()).unwrap_or(DEFAULT_SEED)
}

pub fn runs_override(default: u64) -> u64 {
    std::env::var("VERIF_RUNS").ok().and_then(|s| s.parse().ok()).unwrap_or(default)
}

const LOG_RUN_OFFSET: u64 = 1 << 40;
const MAX_REPORTED: usize = 6;

/// Re-run a replay file in a fresh process; returns the signatures it reports.
pub fn replay_in_fresh_process(path: &str) -> Result<Vec<String>, String> {
    let exe = std::env::current_exe().map_err(|e| e.to_string())?;
    let out = std::process::Command::new(exe)
        .args(["replay", path])
        .env("VERIF_QUIET", "1")
        .output()
        .map_err(|e| e.to_string())?;
    let s = String::from_utf8_lossy(&out.stdout);
    Ok(s.lines().filter_map(|l| l.strip_prefix("REPLAY-VIOLATION sig=")).map(|x| x.split(' ').next().unwrap_or("").to_string()).collect())
}

pub fn run_check(sc: &dyn Scenario, tier: Tier) -> Report {
    let t0 = Instant::now();
    let seed = seed_from_env();
    let prop = sc.prop();
    println!("[{}] tier={} VERIF_SEED={} workers={}", prop, tier.name(), seed, workers());
    let n = runs_override(sc.runs(tier));
    let nlog = if std::env::var("VERIF_RUNS").is_ok() { (n / 8).max(1) } else { sc.log_runs(tier) };

    // pass A: no logger installed
    crate::watch::set_stage(crate::watch::STAGE_MAIN);
    let (mut st, mut fails) = run_batch(n, |run, st| sc.one_run(seed, run, tier, st).0);
    st.add("runs_pass_nolog", n);
    // deterministic enumerations (no logger)
    crate::watch::set_stage(crate::watch::STAGE_ENUM);
    let mut enum_fails = sc.enumerate(tier, seed, &mut st);
    // pass B: Trace-level logger formatting every record
    crate::watch::set_stage(crate::watch::STAGE_LOG);
    enable_trace_logger();
    let (st_b, fails_b) = run_batch(nlog, |run, st| sc.one_run(seed, LOG_RUN_OFFSET + run, tier, st).0);
    crate::watch::set_stage(crate::watch::STAGE_OTHER);
    let logged = LOGGED.load(std::sync::atomic::Ordering::Relaxed);
    st.merge(st_b);
    st.add("runs_pass_tracelog", nlog);
    st.add("log_records_formatted", logged);
    fails.extend(fails_b.into_iter().map(|(r, v)| (LOG_RUN_OFFSET + r, v)));

    // ---- failing runs -> minimised replay files ------------------------------------------------
    let mut cx = Cx {
        sc,
        tier,
        seed,
        prop,
        known: load_known(),
        lines: vec![],
        reported: BTreeMap::new(),
        n_viol: 0,
        n_known: 0,
        harness_error: None,
    };
    let total_failing_runs = fails.len() + enum_fails.len();
    // regression replays of findings that were fixed: a fixed entry suppresses nothing
    let mut regress_files = 0u64;
    if let Ok(rd) = std::fs::read_dir(verif_dir().join("regress").join(prop)) {
        let mut files: Vec<_> = rd.filter_map(|e| e.ok()).map(|e| e.path()).filter(|p| p.extension().map_or(false, |x| x == "json")).collect();
        files.sort();
        for f in files {
            crate::watch::enter_stage(crate::watch::STAGE_REGRESS, regress_files);
            regress_files += 1;
            let Ok(txt) = std::fs::read_to_string(&f) else { continue };
            let Ok(v) = serde_json::from_str::<J>(&txt) else {
                cx.harness_error = Some(format!("regress file {} does not parse", f.display()));
                continue;
            };
            for x in eval_any(sc, &v).iter().filter(|x| x.clause.starts_with(prop)) {
                cx.handle_regress(f.to_string_lossy().as_ref(), &x.sig, &x.detail);
            }
        }
    }
    crate::watch::leave();
    st.add("regress_replays", regress_files);
    for (run, viols) in &fails {
        if cx.reported.values().filter(|p| !p.is_empty()).count() >= MAX_REPORTED {
            break;
        }
        // skip runs whose signatures are all reported already
        if viols.iter().all(|v| cx.reported.contains_key(&v.sig)) {
            continue;
        }
        // regenerate the failing case from its run index (pure function of seed and run) — on a
        // fresh thread, so that nothing an earlier regeneration left in thread-local state of the
        // crate under test can leak into this one
        let logger = *run >= LOG_RUN_OFFSET;
        let (rr, case) = on_fresh_thread(|| sc.one_run(seed, *run, tier, &mut Stats::default()));
        let Some(case) = case else {
            // Alone the run holds. Then its outcome in the batch depended on what the same worker
            // thread had executed before it: the crate keeps state across calls. Re-execute that
            // history on a fresh thread; if the violation is back, the history is the replay.
            let (stage, idx) = if logger { (crate::watch::STAGE_LOG, *run - LOG_RUN_OFFSET) } else { (crate::watch::STAGE_MAIN, *run) };
            let mut done = false;
            if let Some(h) = fail_history(stage, idx) {
                let off = if logger { LOG_RUN_OFFSET } else { 0 };
                let mut runs: Vec<u64> = h.iter().map(|x| x + off).collect();
                runs.push(*run);
                let body = json!({"kind": "history", "property": prop, "seed": seed.to_string(), "tier": tier.name(), "runs": runs, "logger": logger});
                let got = eval_history(sc, &body);
                for v in got.iter().filter(|v| v.clause.starts_with(prop)) {
                    if viols.iter().any(|x| x.sig == v.sig) {
                        cx.handle_history(v.sig.clone(), v.detail.clone(), body.clone());
                        done = true;
                    }
                }
            }
            if !done {
                cx.harness_error = Some(format!("run {} failed in the batch but neither alone nor after the runs its worker thread had executed before it (nondeterminism)", run));
            }
            continue;
        };
        if rr.violations.len() != viols.len() {
            cx.harness_error = Some(format!("run {} is not deterministic", run));
        }
        for v in &rr.violations {
            if !v.clause.starts_with(prop) {
                continue;
            }
            cx.handle(v.sig.clone(), v.detail.clone(), case.clone(), logger);
        }
    }
    for (v, case) in enum_fails.drain(..) {
        cx.handle(v.sig.clone(), v.detail.clone(), case, false);
    }
    let Cx { lines, reported, n_viol, n_known, mut harness_error, .. } = cx;
    let hp = crate::core::HARNESS_PANICS.load(std::sync::atomic::Ordering::SeqCst);
    if hp > 0 && harness_error.is_none() {
        harness_error = Some(format!("{} panic(s) in harness code (outside calls into the crate under test); see stderr", hp));
    }

    // ---- evidence ------------------------------------------------------------------------------
    let mut ev = sc.evidence(tier, seed);
    let _ = &mut fails;
    for i in 0..24u64 {
        let s = sc.sample(seed, i, tier);
        // prefer written-out runs that actually contain something
        if s.get("medium_len").and_then(|x| x.as_u64()).map_or(true, |n| n > 0) {
            ev.samples.push(s);
        }
        if ev.samples.len() >= 3 {
            break;
        }
    }
    ev.extra.insert("failing_runs_total".into(), json!(total_failing_runs));
    let d = crate::dict::dict();
    ev.extra.insert(
        "source_dictionary".into(),
        json!({"what": "integer literals (with their +-1 neighbours) and string literals of the sources of the crate under test, offered to the workload generators", "numbers": d.nums.len(), "strings": d.strs.len()}),
    );
    ev.extra.insert("violation_signatures".into(), json!(reported.keys().collect::<Vec<_>>()));
    let wall = t0.elapsed().as_secs_f64();
    if let Err(e) = ev.write(&st, wall, n_viol, n_known) {
        if harness_error.is_none() {
            harness_error = Some(e);
        }
    }
    for l in &lines {
        println!("{}", l);
    }
    println!(
        "[{}] runs={} (+{} with trace logger) failing_runs={} violations={} known={} distinct_nontrivial={} wall={:.1}s",
        prop,
        n,
        nlog,
        total_failing_runs,
        n_viol,
        n_known,
        st.nontrivial.len(),
        wall
    );
    if let Some(e) = &harness_error {
        println!("HARNESS-ERROR: {}", e);
    }
    Report { prop, lines, violations: n_viol, known: n_known, harness_error }
}

struct Cx<'a> {
    sc: &'a dyn Scenario,
    tier: Tier,
    seed: u64,
    prop: &'static str,
    known: Vec<Known>,
    lines: Vec<String>,
    reported: BTreeMap<String, String>,
    n_viol: usize,
    n_known: usize,
    harness_error: Option<String>,
}

/// run `f` on a thread of its own (thread-local state of the crate under test starts empty)
pub fn on_fresh_thread<T: Send>(f: impl FnOnce() -> T + Send) -> T {
    std::thread::scope(|s| s.spawn(f).join()).unwrap_or_else(|e| std::panic::resume_unwind(e))
}

/// A history replay: the seeded runs `runs`, executed one after the other on one fresh thread;
/// the verdict is that of the last one. (Depends on the generators, unlike a materialised case:
/// the producer's calls into the crate's writer are part of the history.)
pub fn eval_history(sc: &dyn Scenario, body: &J) -> Vec<Violation> {
    let seed: u64 = body["seed"].as_str().and_then(|s| s.parse().ok()).unwrap_or(DEFAULT_SEED);
    let tier = if body["tier"].as_str() == Some("thorough") { Tier::Thorough } else { Tier::Quick };
    let runs: Vec<u64> = body["runs"].as_array().map(|a| a.iter().filter_map(|x| x.as_u64()).collect()).unwrap_or_default();
    on_fresh_thread(|| {
        let mut last = vec![];
        for r in &runs {
            let res = std::panic::catch_unwind(std::panic::AssertUnwindSafe(|| sc.one_run(seed, *r, tier, &mut Stats::default()).0.violations));
            last = res.unwrap_or_default();
        }
        last
    })
}

/// evaluation of any replay body: a materialised case or a history
pub fn eval_any(sc: &dyn Scenario, body: &J) -> Vec<Violation> {
    if body["kind"].as_str() == Some("history") {
        eval_history(sc, body)
    } else {
        sc.eval(body)
    }
}

impl<'a> Cx<'a> {
    /// a violation that needs the runs before it: shrink the history, confirm in a fresh process
    fn handle_history(&mut self, sig: String, detail: String, body: J) {
        let prop = self.prop;
        if self.reported.contains_key(&sig) {
            return;
        }
        if let Some(k) = known_match(&self.known, prop, &sig) {
            self.reported.insert(sig.clone(), String::new());
            self.lines.push(format!("KNOWN-FINDING: property={} {} [{}]", prop, k.what, sig));
            self.n_known += 1;
            return;
        }
        let fails = |b: &J| eval_history(self.sc, b).iter().any(|v| v.sig == sig);
        let mut runs: Vec<u64> = body["runs"].as_array().map(|a| a.iter().filter_map(|x| x.as_u64()).collect()).unwrap_or_default();
        let last = runs.pop().unwrap_or(0);
        // delta debugging over the earlier runs (the last one stays)
        let mut chunk = (runs.len() / 2).max(1);
        let mut budget = 300;
        while !runs.is_empty() && budget > 0 {
            let mut i = 0;
            let mut progress = false;
            while i < runs.len() && budget > 0 {
                let end = (i + chunk).min(runs.len());
                let mut cand: Vec<u64> = runs[..i].to_vec();
                cand.extend_from_slice(&runs[end..]);
                let mut b = body.clone();
                let mut all = cand.clone();
                all.push(last);
                b["runs"] = json!(all);
                budget -= 1;
                if fails(&b) {
                    runs = cand;
                    progress = true;
                } else {
                    i = end;
                }
            }
            if chunk == 1 {
                if !progress {
                    break;
                }
            } else {
                chunk /= 2;
            }
        }
        let mut fin = body.clone();
        let mut all = runs.clone();
        all.push(last);
        fin["runs"] = json!(all);
        fin["violation"] = json!({"property": prop, "signature": sig, "detail": detail});
        fin["explanation"] = json!("the last run violates the property only after the runs before it have been executed on the same thread: the crate keeps state across calls. Each entry of `runs` is a run index of the seeded generator (pure function of seed and index); the written-out cases are in `steps_for_the_reader`.");
        fin["steps_for_the_reader"] = J::Array(all.iter().map(|r| {
            let mut c = self.sc.case_for_run(body["seed"].as_str().and_then(|s| s.parse().ok()).unwrap_or(DEFAULT_SEED), *r, if body["tier"].as_str() == Some("thorough") { Tier::Thorough } else { Tier::Quick });
            if let Some(o) = c.as_object_mut() {
                o.remove("gen");
            }
            c
        }).collect());
        let path = write_replay(prop, &fin);
        match replay_in_fresh_process(&path) {
            Ok(sigs) if sigs.iter().any(|s| *s == sig) => {
                self.lines.push(format!("VIOLATION property={} replay={}", prop, path));
                self.lines.push(format!("  clause/signature: {} (only after {} earlier run(s) on the same thread: state kept across calls)", sig, runs.len()));
                self.lines.push(format!("  detail: {}", detail));
                self.n_viol += 1;
                self.reported.insert(sig, path);
            }
            Ok(sigs) => {
                self.harness_error = Some(format!("history replay {} did not reproduce {} in a fresh process (got {:?})", path, sig, sigs));
                self.reported.insert(sig, String::new());
            }
            Err(e) => {
                self.harness_error = Some(format!("could not run replay: {}", e));
                self.reported.insert(sig, String::new());
            }
        }
    }
    fn handle_regress(&mut self, path: &str, sig: &str, detail: &str) {
        if self.reported.contains_key(sig) {
            return;
        }
        if let Some(k) = known_match(&self.known, self.prop, sig) {
            self.reported.insert(sig.to_string(), String::new());
            self.lines.push(format!("KNOWN-FINDING: property={} {} [{}]", self.prop, k.what, sig));
            self.n_known += 1;
            return;
        }
        self.lines.push(format!("VIOLATION property={} replay={}", self.prop, path));
        self.lines.push(format!("  clause/signature: {} (regression replay of a fixed finding fails again)", sig));
        self.lines.push(format!("  detail: {}", detail));
        self.n_viol += 1;
        self.reported.insert(sig.to_string(), path.to_string());
    }
    fn handle(&mut self, sig: String, detail: String, case: J, logger: bool) {
        let prop = self.prop;
        if self.reported.contains_key(&sig) {
            return;
        }
        if let Some(k) = known_match(&self.known, prop, &sig) {
            self.reported.insert(sig.clone(), String::new());
            self.lines.push(format!("KNOWN-FINDING: property={} {} [{}]", prop, k.what, sig));
            self.n_known += 1;
            return;
        }
        if self.reported.values().filter(|p| !p.is_empty()).count() >= MAX_REPORTED {
            return;
        }
        let mut case = case;
        case["logger"] = json!(logger);
        // the minimiser runs harness code on shrunken, possibly inconsistent cases: a panic there
        // must not take the check down; fall back to the unminimised case
        let min = match std::panic::catch_unwind(std::panic::AssertUnwindSafe(|| self.sc.minimise(&case, &sig))) {
            Ok(m) => m,
            Err(_) => {
                self.lines.push(format!("  note: minimiser panicked on {}; reporting the unminimised case", sig));
                case.clone()
            }
        };
        let still: Vec<Violation> = std::panic::catch_unwind(std::panic::AssertUnwindSafe(|| self.sc.eval(&min))).unwrap_or_default();
        let (fin, fin_detail) = match still.iter().find(|v| v.sig == sig) {
            Some(v) => (min, v.detail.clone()),
            None => (case.clone(), detail.clone()),
        };
        let mut body = fin.clone();
        body["logger"] = json!(logger);
        body["violation"] = json!({"property": prop, "signature": sig, "detail": fin_detail});
        let path = write_replay(prop, &body);
        match replay_in_fresh_process(&path) {
            Ok(sigs) if sigs.iter().any(|s| *s == sig) => {
                self.lines.push(format!("VIOLATION property={} replay={}", prop, path));
                self.lines.push(format!("  clause/signature: {}", sig));
                self.lines.push(format!("  detail: {}", fin_detail));
                self.n_viol += 1;
                self.reported.insert(sig, path);
            }
            Ok(sigs) => {
                // The materialised case (medium + decision script) does not carry the violation
                // into a fresh process. If the seeded run itself does — generation included: the
                // producer's calls into the crate's writer are then part of what it takes — report
                // it as a one-run history.
                if let Some(run) = fin["provenance"]["run"].as_u64() {
                    let body = json!({"kind": "history", "property": prop, "seed": self.seed.to_string(), "tier": self.tier.name(), "runs": [run], "logger": logger});
                    if eval_history(self.sc, &body).iter().any(|v| v.sig == sig) {
                        let _ = std::fs::remove_file(&path);
                        self.handle_history(sig, fin_detail, body);
                        return;
                    }
                }
                self.harness_error =
                    Some(format!("replay {} did not reproduce {} in a fresh process (got {:?})", path, sig, sigs));
                self.reported.insert(sig, String::new());
            }
            Err(e) => {
                self.harness_error = Some(format!("could not run replay: {}", e));
                self.reported.insert(sig, String::new());
            }
        }
    }
}

/// `dltsim replay <file>`: evaluate a materialised case; prints one line per violation.
pub fn run_replay(path: &str, scenarios: &[&dyn Scenario]) -> i32 {
    let Ok(s) = std::fs::read_to_string(path) else {
        println!("HARNESS-ERROR: cannot read {}", path);
        return 2;
    };
    let Ok(v) = serde_json::from_str::<J>(&s) else {
        println!("HARNESS-ERROR: cannot parse {}", path);
        return 2;
    };
    let prop = v["property"].as_str().unwrap_or("").to_string();
    let Some(sc) = scenarios.iter().find(|s| s.prop() == prop) else {
        println!("HARNESS-ERROR: unknown property {:?} in {}", prop, path);
        return 2;
    };
    if v["logger"].as_bool().unwrap_or(false) {
        enable_trace_logger();
    }
    let viols = eval_any(*sc, &v);
    let mut code = 0;
    for x in viols.iter().filter(|x| x.clause.starts_with(&prop)) {
        println!("REPLAY-VIOLATION sig={} detail={}", x.sig, x.detail);
        code = 1;
    }
    if code == 1 {
        println!("VIOLATION property={} replay={}", prop, path);
    } else if std::env::var("VERIF_QUIET").is_err() {
        println!("replay of {} held: no violation of {}", path, prop);
    }
    code
}

// ---------------------------------------------------------------------------------------------
// Supervisor: the check, and every replay, runs in a child process; a child that dies abnormally
// (stack overflow, refused allocation, watchdog abort of a run that does not end) is turned into
// a violation with a confirmed replay file (see watch.rs).
// ---------------------------------------------------------------------------------------------

pub enum ChildEnd {
    Exit(i32),
    Signal(i32),
    WallTimeout,
}

pub fn single_case_cpu_limit_s() -> u64 {
    std::env::var("DLTSIM_CPU_LIMIT").ok().and_then(|s| s.parse().ok()).unwrap_or(4 * crate::watch::hang_cpu_limit_s())
}

fn signal_name(s: i32) -> String {
    match s {
        4 => "SIGILL".into(),
        6 => "SIGABRT".into(),
        7 => "SIGBUS".into(),
        8 => "SIGFPE".into(),
        9 => "SIGKILL".into(),
        11 => "SIGSEGV".into(),
        24 => "SIGXCPU".into(),
        n => format!("signal{}", n),
    }
}

/// clause a process crash / a run that does not end violates, per property
fn crash_clause(prop: &str, hang: bool) -> &'static str {
    match (prop, hang) {
        ("C03", _) => "C03.a",
        ("C04", false) => "C04.a",
        ("C04", true) => "C04.e",
        ("C05", _) => "C05.a",
        ("C06", _) => "C06.c",
        ("C07", _) => "C07.c",
        ("C08", false) => "C08.c",
        ("C08", true) => "C08.d",
        ("C10", _) => "C10.a",
        ("C12", false) => "C12.b",
        ("C12", true) => "C12.c",
        ("C16", _) => "C16.a",
        _ => "C00.x",
    }
}

fn crash_sig(prop: &str, end: &ChildEnd, hang_flag: bool) -> (String, String) {
    let hang = hang_flag || matches!(end, ChildEnd::WallTimeout | ChildEnd::Signal(24));
    let clause = crash_clause(prop, hang).to_string();
    if hang {
        (clause.clone(), format!("{}:hang/cpu-limit", clause))
    } else {
        let name = match end {
            ChildEnd::Signal(s) => signal_name(*s),
            _ => "?".into(),
        };
        (clause.clone(), format!("{}:process-crash/{}", clause, name))
    }
}

/// run this executable again with `args`; stdout is inherited or captured
fn run_child(args: &[String], envs: &[(&str, String)], capture: bool, wall_limit_s: u64) -> (ChildEnd, String) {
    use std::os::unix::process::ExitStatusExt;
    use std::process::{Command, Stdio};
    let exe = match std::env::current_exe() {
        Ok(e) => e,
        Err(_) => return (ChildEnd::Exit(2), String::new()),
    };
    let mut cmd = Command::new(exe);
    cmd.args(args);
    for (k, v) in envs {
        cmd.env(k, v);
    }
    if capture {
        cmd.stdout(Stdio::piped()).stderr(Stdio::piped());
    }
    let Ok(mut child) = cmd.spawn() else { return (ChildEnd::Exit(2), String::new()) };
    let mut out = String::new();
    // drain the pipes on helper threads so that a chatty child cannot block
    let h_out = child.stdout.take().map(|mut o| {
        std::thread::spawn(move || {
            let mut s = String::new();
            let _ = std::io::Read::read_to_string(&mut o, &mut s);
            s
        })
    });
    let h_err = child.stderr.take().map(|mut o| {
        std::thread::spawn(move || {
            let mut s = String::new();
            let _ = std::io::Read::read_to_string(&mut o, &mut s);
            s
        })
    });
    let t0 = Instant::now();
    let status = loop {
        match child.try_wait() {
            Ok(Some(st)) => break Some(st),
            Ok(None) => {
                if wall_limit_s > 0 && t0.elapsed().as_secs() > wall_limit_s {
                    let _ = child.kill();
                    let _ = child.wait();
                    break None;
                }
                std::thread::sleep(std::time::Duration::from_millis(if t0.elapsed().as_millis() < 200 { 1 } else { 20 }));
            }
            Err(_) => break None,
        }
    };
    if let Some(h) = h_out {
        out.push_str(&h.join().unwrap_or_default());
    }
    if let Some(h) = h_err {
        out.push_str(&h.join().unwrap_or_default());
    }
    let end = match status {
        None => ChildEnd::WallTimeout,
        Some(st) => match (st.code(), st.signal()) {
            (Some(c), _) => ChildEnd::Exit(c),
            (None, Some(s)) => ChildEnd::Signal(s),
            _ => ChildEnd::Exit(2),
        },
    };
    (end, out)
}

fn scratch_file(tag: &str) -> String {
    let root = if std::path::Path::new("/dev/shm").is_dir() { std::path::PathBuf::from("/dev/shm") } else { std::env::temp_dir() };
    root.join(format!("dltsim-{}-{}", tag, std::process::id())).to_string_lossy().into_owned()
}

/// evaluate a materialised case in a fresh process: a violation iff that process dies abnormally
fn eval_in_subprocess(prop: &str, case: &J, cpu_limit_s: u64) -> Vec<Violation> {
    let tmp = scratch_file("evalcase");
    if std::fs::write(&tmp, serde_json::to_string(case).unwrap_or_default()).is_err() {
        return vec![];
    }
    let (end, _) = run_child(&["replay-child".into(), tmp.clone()], &[("VERIF_QUIET", "1".into()), ("DLTSIM_CPU_LIMIT", cpu_limit_s.to_string())], true, 20 * cpu_limit_s + 60);
    let _ = std::fs::remove_file(&tmp);
    match end {
        ChildEnd::Exit(_) => vec![],
        e => {
            let (clause, sig) = crash_sig(prop, &e, false);
            vec![Violation { clause, sig, detail: "the evaluating process died".into() }]
        }
    }
}

/// `dltsim check` as the user calls it: run the real check in a child; pass its verdict through,
/// or — if it died — find the run that kills it and report that.
pub fn supervise_check(sc: &dyn Scenario, tier: Tier) -> i32 {
    let prop = sc.prop();
    let journal = scratch_file(&format!("journal-{}", prop));
    let _ = std::fs::remove_file(&journal);
    let t0 = Instant::now();
    let (end, _) = run_child(&["check-child".into(), prop.into(), tier.name().into()], &[("DLTSIM_JOURNAL", journal.clone())], false, 0);
    let code = match end {
        ChildEnd::Exit(c) => c,
        end => handle_dead_child(sc, tier, &journal, end, t0),
    };
    let _ = std::fs::remove_file(&journal);
    code
}

fn handle_dead_child(sc: &dyn Scenario, tier: Tier, journal: &str, end: ChildEnd, t0: Instant) -> i32 {
    let prop = sc.prop();
    let seed = seed_from_env();
    let (mut inflight, started, distinct_lb, nontrivial_lb) = crate::watch::read_journal(journal);
    let how = match &end {
        ChildEnd::Signal(s) => signal_name(*s),
        _ => "timeout".into(),
    };
    println!("[{}] the check process died ({}) after starting {} runs; {} run(s) were in flight: re-executing each in a fresh process", prop, how, started, inflight.len());
    inflight.sort_by_key(|c| !c.hang);
    let dir = verif_dir().join("replays").join(prop);
    let _ = std::fs::create_dir_all(&dir);
    let mut found: Option<(crate::watch::InFlight, String, ChildEnd)> = None;
    for c in &inflight {
        if c.stage == crate::watch::STAGE_OTHER {
            continue;
        }
        let file = dir.join(format!("inflight-{}-{}.json", c.stage, c.run)).to_string_lossy().into_owned();
        let (e, _) = run_child(
            &["probe".into(), prop.into(), tier.name().into(), c.stage.to_string(), c.run.to_string(), file.clone()],
            &[("VERIF_QUIET", "1".into())],
            true,
            20 * single_case_cpu_limit_s() + 120,
        );
        match e {
            ChildEnd::Exit(_) => {
                let _ = std::fs::remove_file(&file);
            }
            e => {
                found = Some((c.clone(), file, e));
                break;
            }
        }
    }
    let Some((c, file, e)) = found else {
        if inflight.iter().any(|c| c.hang) {
            println!(
                "HARNESS-ERROR: the watchdog stopped the check because one run had used more than {} s of CPU, but executed alone in a fresh process that run ends (within {} s): it is slow, not endless. No verdict; the run indices in flight were {:?}",
                crate::watch::hang_cpu_limit_s(),
                single_case_cpu_limit_s(),
                inflight.iter().map(|c| (c.stage, c.run)).collect::<Vec<_>>()
            );
        } else {
            println!("HARNESS-ERROR: the check process died ({}) but none of the {} in-flight runs kills a fresh process; see stderr above", how, inflight.len());
        }
        return 2;
    };
    let (clause, sig) = crash_sig(prop, &e, c.hang);
    let is_hang = sig.contains(":hang/");
    let Ok(txt) = std::fs::read_to_string(&file) else {
        // the probe died before it had written the case: the process is killed while the *workload*
        // of this run is being produced (the producer serialises well-formed messages with the
        // crate's own writer). No claimed property quantifies over that; it is not a verdict on this one.
        println!(
            "HARNESS-ERROR: stage {} run {} (seed {}) kills the process ({}) while its workload is being produced, i.e. inside the crate's writer on a well-formed message or inside the generator; the check cannot run and gives no verdict",
            c.stage,
            c.run,
            seed,
            match &e {
                ChildEnd::Signal(s) => signal_name(*s),
                _ => "timeout".into(),
            }
        );
        return 2;
    };
    let _ = std::fs::remove_file(&file);
    let Ok(case) = serde_json::from_str::<J>(&txt) else {
        println!("HARNESS-ERROR: case file of stage {} run {} does not parse", c.stage, c.run);
        return 2;
    };
    let detail0 = if is_hang {
        format!("stage {} run {} (seed {}): the run does not finish (CPU budget of {} s for one run exhausted)", c.stage, c.run, seed, crate::watch::hang_cpu_limit_s())
    } else {
        format!("stage {} run {} (seed {}): executing the run kills the process ({})", c.stage, c.run, seed, match &e { ChildEnd::Signal(s) => signal_name(*s), _ => "timeout".into() })
    };
    let known = load_known();
    if let Some(k) = known_match(&known, prop, &sig) {
        println!("KNOWN-FINDING: property={} {} [{}]", prop, k.what, sig);
        println!("HARNESS-ERROR: a known finding kills the check process; the rest of the batch was not explored");
        return 2;
    }
    // minimise with evaluation in subprocesses; a hanging case costs its CPU limit per evaluation
    // (a run that does not end is minimised under a smaller CPU limit than the 60 s of the batch —
    // every candidate that still "hangs" costs that limit — and the limit becomes part of the replay
    // file: replaying means "this case needs more than that much CPU", where a legitimate case of
    // its size needs milliseconds)
    // The replay file records HALF the limit the minimiser used: CPU time of one and the same case
    // varies by some ten percent from run to run, and a case shrunk until it just exceeds the limit
    // would sometimes finish in time when replayed under that very limit (it did, once).
    let hang_min_limit = 6u64;
    let hang_replay_limit = hang_min_limit / 2;
    let (cpu, budget) = if is_hang { (hang_min_limit, 24usize) } else { (single_case_cpu_limit_s(), 400usize) };
    let ev = |x: &J| eval_in_subprocess(prop, x, cpu);
    let min = sc.minimise_ext(&case, &sig, &ev, budget);
    let fin = if ev(&min).iter().any(|v| v.sig == sig) { min } else { case.clone() };
    let mut body = fin.clone();
    body["violation"] = json!({"property": prop, "signature": sig, "detail": detail0});
    if is_hang {
        body["cpu_limit_s"] = json!(hang_replay_limit);
    }
    let path = write_replay(prop, &body);
    let code = match replay_in_fresh_process(&path) {
        Ok(sigs) if sigs.iter().any(|s| *s == sig) => {
            println!("VIOLATION property={} replay={}", prop, path);
            println!("  clause/signature: {}", sig);
            println!("  detail: {}", detail0);
            1
        }
        Ok(sigs) => {
            println!("HARNESS-ERROR: replay {} did not reproduce {} in a fresh process (got {:?})", path, sig, sigs);
            2
        }
        Err(e) => {
            println!("HARNESS-ERROR: could not run replay: {}", e);
            2
        }
    };
    // the child died before it could write its evidence: say what is known
    let ev = json!({
        "property_id": prop,
        "tier": tier.name(),
        "seed": seed,
        "level": sc.evidence(tier, seed).level,
        "coverage": {
            "evaluations": started,
            "distinct_nontrivial": nontrivial_lb,
            "distinct_histories": distinct_lb,
            "rule": format!("the check process died while executing a run (crash or hang). evaluations = runs started according to the journal. The counters of the batch died with the process; distinct_nontrivial / distinct_histories are measured LOWER BOUNDS: the largest count any single worker had noted in the journal at its last 64-run checkpoint (cases counted by one worker are distinct by the rule of the normal run: {})", sc.evidence(tier, seed).rule),
            "samples": [fin],
            "exhaustive": false,
            "process_death": {"how": how, "in_flight": inflight.iter().map(|c| json!({"stage": c.stage, "run": c.run, "hang_flag": c.hang})).collect::<Vec<_>>(), "signature": sig, "clause": clause},
        },
        "assumptions": ["the batch was cut short by the death of the process; only the run that kills it is reported"],
        "wall_s": (t0.elapsed().as_secs_f64() * 1000.0).round() / 1000.0,
        "violations": if code == 1 { 1 } else { 0 },
    });
    let edir = verif_dir().join("evidence");
    let _ = std::fs::create_dir_all(&edir);
    let _ = std::fs::write(edir.join(format!("{}.json", prop)), serde_json::to_string_pretty(&ev).unwrap_or_default());
    println!("[{}] runs_started={} violations={} (process death: {})", prop, started, if code == 1 { 1 } else { 0 }, how);
    code
}

/// `dltsim probe <ID> <tier> <stage> <run> <file>`: regenerate one run, write its case to `file`
/// *before* executing it, then execute it.
pub fn run_probe(args: &[String], scenarios: &[&dyn Scenario]) -> i32 {
    let (Some(id), Some(tier), Some(stage), Some(run), Some(file)) = (args.first(), args.get(1), args.get(2), args.get(3), args.get(4)) else {
        println!("usage: dltsim probe <ID> <tier> <stage> <run> <file>");
        return 2;
    };
    let Some(sc) = scenarios.iter().find(|s| s.prop() == id) else { return 2 };
    let tier = if tier == "thorough" { Tier::Thorough } else { Tier::Quick };
    let stage: u64 = stage.parse().unwrap_or(0);
    let run: u64 = run.parse().unwrap_or(0);
    let seed = seed_from_env();
    let mut case = match stage {
        crate::watch::STAGE_MAIN => sc.case_for_run(seed, run, tier),
        crate::watch::STAGE_LOG => {
            let mut c = sc.case_for_run(seed, LOG_RUN_OFFSET + run, tier);
            c["logger"] = json!(true);
            c
        }
        crate::watch::STAGE_ENUM => match sc.enumerate_case(tier, seed, run) {
            Some(c) => c,
            None => return 0,
        },
        crate::watch::STAGE_REGRESS => {
            let mut files: Vec<_> = match std::fs::read_dir(verif_dir().join("regress").join(sc.prop())) {
                Ok(rd) => rd.filter_map(|e| e.ok()).map(|e| e.path()).filter(|p| p.extension().map_or(false, |x| x == "json")).collect(),
                Err(_) => vec![],
            };
            files.sort();
            match files.get(run as usize).and_then(|f| std::fs::read_to_string(f).ok()).and_then(|t| serde_json::from_str::<J>(&t).ok()) {
                Some(c) => c,
                None => return 0,
            }
        }
        _ => return 0,
    };
    if case.get("logger").is_none() {
        case["logger"] = json!(false);
    }
    if std::fs::write(file, serde_json::to_string_pretty(&case).unwrap_or_default()).is_err() {
        return 2;
    }
    if case["logger"].as_bool().unwrap_or(false) {
        enable_trace_logger();
    }
    let prop = sc.prop();
    let viols = sc.eval(&case);
    if viols.iter().any(|x| x.clause.starts_with(prop)) {
        1
    } else {
        0
    }
}

/// `dltsim replay <file>` as the user calls it: evaluate in a child; a child that dies is a violation.
pub fn supervise_replay(path: &str) -> i32 {
    // a replay of a run that does not end carries the CPU limit under which it was confirmed
    let limit = std::fs::read_to_string(path).ok().and_then(|s| serde_json::from_str::<J>(&s).ok()).and_then(|v| v["cpu_limit_s"].as_u64());
    let envs: Vec<(&str, String)> = match limit {
        Some(l) => vec![("DLTSIM_CPU_LIMIT", l.to_string())],
        None => vec![],
    };
    let (end, _) = run_child(&["replay-child".into(), path.into()], &envs, false, 20 * single_case_cpu_limit_s() + 120);
    match end {
        ChildEnd::Exit(c) => c,
        e => {
            let prop = std::fs::read_to_string(path).ok().and_then(|s| serde_json::from_str::<J>(&s).ok()).and_then(|v| v["property"].as_str().map(String::from)).unwrap_or_default();
            let (_, sig) = crash_sig(&prop, &e, false);
            println!("REPLAY-VIOLATION sig={} detail=the process evaluating this case died", sig);
            println!("VIOLATION property={} replay={}", prop, path);
            1
        }
    }
}
