//! Check driver: runs a scenario's seeded batch (twice: without and with a Trace logger), turns
//! failing runs into minimised replay files, re-runs each replay in a fresh process, applies the
//! known-findings file, writes the evidence file and prints the contract lines.

use crate::core::*;
use serde_json::{json, Value as J};
use std::collections::BTreeMap;
use std::time::Instant;

pub trait Scenario: Sync {
    fn prop(&self) -> &'static str;
    fn runs(&self, tier: Tier) -> u64;
    /// runs of the logging pass (Trace-level sink installed)
    fn log_runs(&self, tier: Tier) -> u64;
    fn one_run(&self, seed: u64, run: u64, tier: Tier, st: &mut Stats) -> (RunResult, Option<J>);
    /// deterministic re-evaluation of a materialised case (replay, minimiser)
    fn eval(&self, case: &J) -> Vec<Violation>;
    fn minimise(&self, case: &J, sig: &str) -> J;
    fn evidence(&self, tier: Tier, seed: u64) -> Evidence;
    fn sample(&self, seed: u64, run: u64, tier: Tier) -> J;
    /// additional deterministic enumeration (e.g. every truncation offset); returns failing cases
    fn enumerate(&self, _tier: Tier, _seed: u64, _st: &mut Stats) -> Vec<(Violation, J)> {
        vec![]
    }
}

struct Sink;
thread_local! {
    static SINK_BUF: std::cell::RefCell<String> = const { std::cell::RefCell::new(String::new()) };
}
pub static LOGGED: std::sync::atomic::AtomicU64 = std::sync::atomic::AtomicU64::new(0);
impl log::Log for Sink {
    fn enabled(&self, _: &log::Metadata) -> bool {
        true
    }
    fn log(&self, record: &log::Record) {
        // format every record so that the argument expressions really run
        SINK_BUF.with(|b| {
            use std::fmt::Write;
            let mut b = b.borrow_mut();
            b.clear();
            let _ = write!(b, "{}", record.args());
        });
        LOGGED.fetch_add(1, std::sync::atomic::Ordering::Relaxed);
    }
    fn flush(&self) {}
}
static SINK: Sink = Sink;

pub fn enable_trace_logger() {
    let _ = log::set_logger(&SINK);
    log::set_max_level(log::LevelFilter::Trace);
}

pub fn seed_from_env() -> u64 {
    std::env::var("VERIF_SEED").ok().and_then(|s| s.trim().parse::<u64>().ok()).unwrap_or(DEFAULT_SEED)
}

pub fn runs_override(default: u64) -> u64 {
    std::env::var("VERIF_RUNS").ok().and_then(|s| s.parse().ok()).unwrap_or(default)
}

const LOG_RUN_OFFSET: u64 = 1 << 40;
const MAX_REPORTED: usize = 6;

/// Re-run a replay file in a fresh process; returns the signatures it reports.
pub fn replay_in_fresh_process(path: &str) -> Result<Vec<String>, String> {
    let exe = std::env::current_exe().map_err(|e| e.to_string())?;
    let out = std::process::Command::new(exe)
        .args(["replay", path])
        .env("VERIF_QUIET", "1")
        .output()
        .map_err(|e| e.to_string())?;
    let s = String::from_utf8_lossy(&out.stdout);
    Ok(s.lines().filter_map(|l| l.strip_prefix("REPLAY-VIOLATION sig=")).map(|x| x.split(' ').next().unwrap_or("").to_string()).collect())
}

pub fn run_check(sc: &dyn Scenario, tier: Tier) -> Report {
    let t0 = Instant::now();
    let seed = seed_from_env();
    let prop = sc.prop();
    println!("[{}] tier={} VERIF_SEED={} workers={}", prop, tier.name(), seed, workers());
    let n = runs_override(sc.runs(tier));
    let nlog = if std::env::var("VERIF_RUNS").is_ok() { (n / 8).max(1) } else { sc.log_runs(tier) };

    // pass A: no logger installed
    let (mut st, mut fails) = run_batch(n, |run, st| sc.one_run(seed, run, tier, st).0);
    st.add("runs_pass_nolog", n);
    // deterministic enumerations (no logger)
    let mut enum_fails = sc.enumerate(tier, seed, &mut st);
    // pass B: Trace-level logger formatting every record
    enable_trace_logger();
    let (st_b, fails_b) = run_batch(nlog, |run, st| sc.one_run(seed, LOG_RUN_OFFSET + run, tier, st).0);
    let logged = LOGGED.load(std::sync::atomic::Ordering::Relaxed);
    st.merge(st_b);
    st.add("runs_pass_tracelog", nlog);
    st.add("log_records_formatted", logged);
    fails.extend(fails_b.into_iter().map(|(r, v)| (LOG_RUN_OFFSET + r, v)));

    // ---- failing runs -> minimised replay files ------------------------------------------------
    let mut cx = Cx {
        sc,
        prop,
        known: load_known(),
        lines: vec![],
        reported: BTreeMap::new(),
        n_viol: 0,
        n_known: 0,
        harness_error: None,
    };
    let total_failing_runs = fails.len() + enum_fails.len();
    // regression replays of findings that were fixed: a fixed entry suppresses nothing
    let mut regress_files = 0u64;
    if let Ok(rd) = std::fs::read_dir(verif_dir().join("regress").join(prop)) {
        let mut files: Vec<_> = rd.filter_map(|e| e.ok()).map(|e| e.path()).filter(|p| p.extension().map_or(false, |x| x == "json")).collect();
        files.sort();
        for f in files {
            regress_files += 1;
            let Ok(txt) = std::fs::read_to_string(&f) else { continue };
            let Ok(v) = serde_json::from_str::<J>(&txt) else {
                cx.harness_error = Some(format!("regress file {} does not parse", f.display()));
                continue;
            };
            for x in sc.eval(&v).iter().filter(|x| x.clause.starts_with(prop)) {
                cx.handle_regress(f.to_string_lossy().as_ref(), &x.sig, &x.detail);
            }
        }
    }
    st.add("regress_replays", regress_files);
    for (run, viols) in &fails {
        if cx.reported.values().filter(|p| !p.is_empty()).count() >= MAX_REPORTED {
            break;
        }
        // skip runs whose signatures are all reported already
        if viols.iter().all(|v| cx.reported.contains_key(&v.sig)) {
            continue;
        }
        // regenerate the failing case from its run index (pure function of seed and run)
        let mut tmp = Stats::default();
        let logger = *run >= LOG_RUN_OFFSET;
        let (rr, case) = sc.one_run(seed, *run, tier, &mut tmp);
        let Some(case) = case else {
            cx.harness_error = Some(format!("run {} failed in the batch but not when regenerated (nondeterminism)", run));
            continue;
        };
        if rr.violations.len() != viols.len() {
            cx.harness_error = Some(format!("run {} is not deterministic", run));
        }
        for v in &rr.violations {
            if !v.clause.starts_with(prop) {
                continue;
            }
            cx.handle(v.sig.clone(), v.detail.clone(), case.clone(), logger);
        }
    }
    for (v, case) in enum_fails.drain(..) {
        cx.handle(v.sig.clone(), v.detail.clone(), case, false);
    }
    let Cx { lines, reported, n_viol, n_known, mut harness_error, .. } = cx;
    let hp = crate::core::HARNESS_PANICS.load(std::sync::atomic::Ordering::SeqCst);
    if hp > 0 && harness_error.is_none() {
        harness_error = Some(format!("{} panic(s) in harness code (outside calls into the crate under test); see stderr", hp));
    }

    // ---- evidence ------------------------------------------------------------------------------
    let mut ev = sc.evidence(tier, seed);
    let _ = &mut fails;
    for i in 0..24u64 {
        let s = sc.sample(seed, i, tier);
        // prefer written-out runs that actually contain something
        if s.get("medium_len").and_then(|x| x.as_u64()).map_or(true, |n| n > 0) {
            ev.samples.push(s);
        }
        if ev.samples.len() >= 3 {
            break;
        }
    }
    ev.extra.insert("failing_runs_total".into(), json!(total_failing_runs));
    ev.extra.insert("violation_signatures".into(), json!(reported.keys().collect::<Vec<_>>()));
    let wall = t0.elapsed().as_secs_f64();
    if let Err(e) = ev.write(&st, wall, n_viol, n_known) {
        if harness_error.is_none() {
            harness_error = Some(e);
        }
    }
    for l in &lines {
        println!("{}", l);
    }
    println!(
        "[{}] runs={} (+{} with trace logger) failing_runs={} violations={} known={} distinct_nontrivial={} wall={:.1}s",
        prop,
        n,
        nlog,
        total_failing_runs,
        n_viol,
        n_known,
        st.nontrivial.len(),
        wall
    );
    if let Some(e) = &harness_error {
        println!("HARNESS-ERROR: {}", e);
    }
    Report { prop, lines, violations: n_viol, known: n_known, harness_error }
}

struct Cx<'a> {
    sc: &'a dyn Scenario,
    prop: &'static str,
    known: Vec<Known>,
    lines: Vec<String>,
    reported: BTreeMap<String, String>,
    n_viol: usize,
    n_known: usize,
    harness_error: Option<String>,
}

impl<'a> Cx<'a> {
    fn handle_regress(&mut self, path: &str, sig: &str, detail: &str) {
        if self.reported.contains_key(sig) {
            return;
        }
        if let Some(k) = known_match(&self.known, self.prop, sig) {
            self.reported.insert(sig.to_string(), String::new());
            self.lines.push(format!("KNOWN-FINDING: property={} {} [{}]", self.prop, k.what, sig));
            self.n_known += 1;
            return;
        }
        self.lines.push(format!("VIOLATION property={} replay={}", self.prop, path));
        self.lines.push(format!("  clause/signature: {} (regression replay of a fixed finding fails again)", sig));
        self.lines.push(format!("  detail: {}", detail));
        self.n_viol += 1;
        self.reported.insert(sig.to_string(), path.to_string());
    }
    fn handle(&mut self, sig: String, detail: String, case: J, logger: bool) {
        let prop = self.prop;
        if self.reported.contains_key(&sig) {
            return;
        }
        if let Some(k) = known_match(&self.known, prop, &sig) {
            self.reported.insert(sig.clone(), String::new());
            self.lines.push(format!("KNOWN-FINDING: property={} {} [{}]", prop, k.what, sig));
            self.n_known += 1;
            return;
        }
        if self.reported.values().filter(|p| !p.is_empty()).count() >= MAX_REPORTED {
            return;
        }
        let mut case = case;
        case["logger"] = json!(logger);
        // the minimiser runs harness code on shrunken, possibly inconsistent cases: a panic there
        // must not take the check down; fall back to the unminimised case
        let min = match std::panic::catch_unwind(std::panic::AssertUnwindSafe(|| self.sc.minimise(&case, &sig))) {
            Ok(m) => m,
            Err(_) => {
                self.lines.push(format!("  note: minimiser panicked on {}; reporting the unminimised case", sig));
                case.clone()
            }
        };
        let still: Vec<Violation> = std::panic::catch_unwind(std::panic::AssertUnwindSafe(|| self.sc.eval(&min))).unwrap_or_default();
        let (fin, fin_detail) = match still.iter().find(|v| v.sig == sig) {
            Some(v) => (min, v.detail.clone()),
            None => (case.clone(), detail.clone()),
        };
        let mut body = fin.clone();
        body["logger"] = json!(logger);
        body["violation"] = json!({"property": prop, "signature": sig, "detail": fin_detail});
        let path = write_replay(prop, &body);
        match replay_in_fresh_process(&path) {
            Ok(sigs) if sigs.iter().any(|s| *s == sig) => {
                self.lines.push(format!("VIOLATION property={} replay={}", prop, path));
                self.lines.push(format!("  clause/signature: {}", sig));
                self.lines.push(format!("  detail: {}", fin_detail));
                self.n_viol += 1;
                self.reported.insert(sig, path);
            }
            Ok(sigs) => {
                self.harness_error =
                    Some(format!("replay {} did not reproduce {} in a fresh process (got {:?})", path, sig, sigs));
                self.reported.insert(sig, String::new());
            }
            Err(e) => {
                self.harness_error = Some(format!("could not run replay: {}", e));
                self.reported.insert(sig, String::new());
            }
        }
    }
}

/// `dltsim replay <file>`: evaluate a materialised case; prints one line per violation.
pub fn run_replay(path: &str, scenarios: &[&dyn Scenario]) -> i32 {
    let Ok(s) = std::fs::read_to_string(path) else {
        println!("HARNESS-ERROR: cannot read {}", path);
        return 2;
    };
    let Ok(v) = serde_json::from_str::<J>(&s) else {
        println!("HARNESS-ERROR: cannot parse {}", path);
        return 2;
    };
    let prop = v["property"].as_str().unwrap_or("").to_string();
    let Some(sc) = scenarios.iter().find(|s| s.prop() == prop) else {
        println!("HARNESS-ERROR: unknown property {:?} in {}", prop, path);
        return 2;
    };
    if v["logger"].as_bool().unwrap_or(false) {
        enable_trace_logger();
    }
    let viols = sc.eval(&v);
    let mut code = 0;
    for x in viols.iter().filter(|x| x.clause.starts_with(&prop)) {
        println!("REPLAY-VIOLATION sig={} detail={}", x.sig, x.detail);
        code = 1;
    }
    if code == 1 {
        println!("VIOLATION property={} replay={}", prop, path);
    } else if std::env::var("VERIF_QUIET").is_err() {
        println!("replay of {} held: no violation of {}", path, prop);
    }
    code
}
