//! The medium and its fault catalogue (DESIGN.md section 3.4). Faults are placed inside records,
//! biased toward region boundaries, and counted only when they actually change a byte.

use crate::core::Stats;
use crate::gen::{Rec, Reg, Region};
use crate::rng::Rng;

#[derive(Clone, Copy, Debug, PartialEq, Eq)]
pub enum Confine {
    /// payload description only: every length field of every header stays intact
    Payload,
    /// anywhere inside records (headers included), lengths of records preserved
    InRecord,
    /// everything, including block-level damage that moves record boundaries
    Any,
}

#[derive(Clone, Debug)]
pub struct FaultPlan {
    pub confine: Confine,
    pub count: usize,
    /// weights: flip, byte, len, noar, ti, pfx, verb, junk, drop, zero, dup, trunc, tail, orphan, amp
    pub w: [u32; 15],
    /// co-schedule PFX=FFFF with a > 64 KiB tail
    pub pfx_tail_pair: bool,
}

pub const F_FLIP: usize = 0;
pub const F_BYTE: usize = 1;
pub const F_LEN: usize = 2;
pub const F_NOAR: usize = 3;
pub const F_TI: usize = 4;
pub const F_PFX: usize = 5;
pub const F_VERB: usize = 6;
pub const F_JUNK: usize = 7;
pub const F_DROP: usize = 8;
pub const F_ZERO: usize = 9;
pub const F_DUP: usize = 10;
pub const F_TRUNC: usize = 11;
pub const F_TAIL: usize = 12;
/// storage headers without a message behind them (a logger that dies right after the header,
/// again and again): 1, 2, 3 or hundreds to thousands in a row
pub const F_ORPHAN: usize = 13;
/// a bulk string field filled with undecodable bytes in just the number that makes a k-fold
/// expansion of them (replacement characters, escapes) land the decoded length on a 16-bit boundary
pub const F_AMP: usize = 14;
pub const FAULT_KEYS: [&str; 15] = [
    "F-FLIP", "F-BYTE", "F-LEN", "F-NOAR", "F-TI", "F-PFX", "F-VERB", "F-JUNK", "F-DROP", "F-ZERO", "F-DUP",
    "F-TRUNC", "F-TAIL", "F-ORPHAN", "F-AMP",
];

impl FaultPlan {
    /// exactly one fault of kind `k`
    pub fn only(k: usize) -> FaultPlan {
        let mut w = [0u32; 15];
        w[k] = 1;
        FaultPlan { confine: Confine::Payload, count: 1, w, pfx_tail_pair: false }
    }
    pub fn none() -> FaultPlan {
        FaultPlan { confine: Confine::Any, count: 0, w: [0; 15], pfx_tail_pair: false }
    }
    /// swarm draw: a random subset of the kinds the confinement allows
    pub fn draw(r: &mut Rng, confine: Confine, storage: bool) -> FaultPlan {
        let mut w = [0u32; 15];
        let allowed: &[usize] = match confine {
            Confine::Payload => &[F_FLIP, F_BYTE, F_NOAR, F_TI, F_PFX, F_VERB, F_JUNK, F_AMP],
            Confine::InRecord => &[F_FLIP, F_BYTE, F_LEN, F_NOAR, F_TI, F_PFX, F_VERB, F_JUNK, F_AMP],
            Confine::Any => &[
                F_FLIP, F_BYTE, F_LEN, F_NOAR, F_TI, F_PFX, F_VERB, F_JUNK, F_DROP, F_ZERO, F_DUP, F_TRUNC, F_TAIL, F_ORPHAN, F_AMP,
            ],
        };
        for k in allowed {
            // without storage headers junk between records is only sound where nothing relies on
            // the harness knowing the record boundaries (garbage on a TCP stream, a serial marker)
            if *k == F_JUNK && !storage && confine != Confine::Any {
                continue;
            }
            if *k == F_ORPHAN && !storage {
                continue;
            }
            if r.chance(1, 2) {
                w[*k] = 1 + r.below(6) as u32;
            }
        }
        if w.iter().all(|x| *x == 0) {
            w[*r.pick(&allowed[..6.min(allowed.len())])] = 1;
        }
        // rare kinds stay rare so that most runs keep most records intact
        w[F_TAIL] = w[F_TAIL].min(1);
        w[F_TRUNC] = w[F_TRUNC].min(2);
        w[F_ORPHAN] = w[F_ORPHAN].min(1);
        let count = *r.pick(&[0usize, 1, 1, 1, 2, 2, 3, 4, 6]);
        FaultPlan { confine, count, w, pfx_tail_pair: confine == Confine::Any && r.chance(1, 12) }
    }
}

#[derive(Clone, Debug, Default)]
pub struct Medium {
    pub bytes: Vec<u8>,
    /// start offset of every element (record or junk block) in `bytes`, while still meaningful
    pub starts: Vec<usize>,
    /// true while `starts` still describes the medium (no block-level damage happened)
    pub aligned: bool,
    /// region / record boundaries (absolute offsets), ascending
    pub boundaries: Vec<usize>,
    pub notes: Vec<String>,
    /// (offset, fault key) of in-record faults, for coverage triples
    pub fault_sites: Vec<(usize, u8)>,
    pub truncated_at: Option<usize>,
    pub tail_from: Option<usize>,
    /// (absolute start offset, region code) ascending; valid while `aligned`
    pub region_starts: Vec<(usize, u8)>,
    /// number of real (non-junk) records laid out
    pub n_records: usize,
}

impl Medium {
    /// region code of the byte at `off` (Region::Junk when unknown)
    pub fn region_at(&self, off: usize) -> u8 {
        let i = self.region_starts.partition_point(|(s, _)| *s <= off);
        if i == 0 {
            Region::Junk as u8
        } else {
            self.region_starts[i - 1].1
        }
    }
    /// fault kind of an in-record fault within 8 bytes of `off`, or 255
    pub fn fault_near(&self, off: usize) -> u8 {
        self.fault_sites
            .iter()
            .find(|(o, _)| (*o as i64 - off as i64).abs() <= 8)
            .map(|(_, k)| *k)
            .unwrap_or(255)
    }
}

fn pick_region<'a>(r: &mut Rng, rec: &'a Rec, payload_only: bool, kinds: Option<&[Region]>) -> Option<&'a Reg> {
    let c: Vec<&Reg> = rec
        .regs
        .iter()
        .filter(|g| {
            let in_payload = matches!(
                g.kind,
                Region::TypeInfo | Region::LenPrefix | Region::NameUnit | Region::FixedPt | Region::Value | Region::RawPayload
            );
            (!payload_only || in_payload) && kinds.map_or(true, |k| k.contains(&g.kind))
        })
        .collect();
    if c.is_empty() {
        None
    } else {
        Some(c[r.below(c.len())])
    }
}

/// offset inside a region, biased to its first / last byte
fn off_in(r: &mut Rng, g: &Reg) -> usize {
    match r.below(4) {
        0 => g.start,
        1 => g.end - 1,
        _ => g.start + r.below(g.end - g.start),
    }
}

/// content classes of junk, crossed with every length class: what a never-written, overwritten or
/// foreign region of a log file looks like
fn junk_fill(r: &mut Rng, n: usize) -> Vec<u8> {
    match r.below(8) {
        0 => vec![0u8; n],
        1 => {
            let mut v = Vec::with_capacity(n + 3);
            while v.len() < n {
                v.extend_from_slice(b"DLT");
            }
            v.truncate(n);
            v
        }
        // a byte-string literal of the crate's source, once or over and over (a marker another
        // tool or another transport puts between messages)
        4 => {
            let lit = crate::dict::blob(r);
            if n <= lit.len() + 8 || r.bool() {
                // exactly the literal (the drawn length gives way), rarely with a few bytes around it
                let k = r.below(4);
                let mut v = if r.chance(1, 4) { r.bytes(k) } else { vec![] };
                v.extend_from_slice(lit);
                v
            } else {
                let mut v = Vec::with_capacity(n + lit.len());
                while v.len() < n {
                    v.extend_from_slice(lit);
                }
                v.truncate(n);
                v
            }
        }
        // one byte value all over: 'D' (the first byte of the pattern), erased flash, blanks
        2 => vec![*r.pick(&[0x44u8, 0x44, 0xff, 0x20, 0x01, 0x4c, 0x54]); n],
        3 => {
            // console text caught in the recording: plenty of capital D, L, T
            const WORDS: &[&str] = &["DEBUG ", "DLT ", "DONE\n", "LOAD ", "D", "TD", "LT", "DL", "daemon: ", "DLT\u{2}", "0x44 ", "\r\n", "DDDD", "TLD "];
            let mut v = Vec::with_capacity(n + 8);
            while v.len() < n {
                v.extend_from_slice(r.pick(WORDS).as_bytes());
            }
            v.truncate(n);
            v
        }
        _ => r.bytes(n),
    }
}

fn junk_block(r: &mut Rng) -> Vec<u8> {
    // one block in ten is exactly one byte-string literal of the crate's source (two times in three
    // a short one: a marker, a magic number, a tag), untouched by the sprinkling below — a marker
    // another tool or transport puts between messages
    if r.chance(1, 10) {
        let mut b = if r.chance(2, 3) { crate::dict::short_blob(r).to_vec() } else { crate::dict::blob(r).to_vec() };
        while let Some(i) = crate::model::naive_find(&b) {
            b[i + 3] = 0x02;
        }
        return b;
    }
    // rarely: a hole larger than any message (zero-filled or garbage sectors after power loss),
    // around the 16 + 65535 boundary and well beyond it
    if r.chance(1, 120) {
        let n = match r.below(5) {
            0 => 65_551 - 8 + r.below(16),
            1 => 65_536 + r.below(64),
            2 => 70_000 + r.below(1000),
            3 => 12_288 + r.below(8000),
            _ => 131_072 + r.below(100),
        };
        let mut b = junk_fill(r, n);
        while let Some(i) = crate::model::naive_find(&b) {
            b[i + 3] = 0x02;
        }
        return b;
    }
    let n = match r.below(12) {
        0 => 0,
        1 => 1 + r.below(3),
        2 => 15,
        3 => 16,
        4 => 17,
        5 => 4096,
        // around a power of two (32 .. 32768): where chunked / windowed searches have their seams
        6 | 7 => ((1usize << (5 + r.below(11))) + r.below(9)).saturating_sub(4),
        // a length that is a literal of the crate's source (or next to one)
        8 => crate::dict::num_below(r, 150_000).unwrap_or(7) as usize,
        _ => 1 + r.below(64),
    };
    let mut b = junk_fill(r, n);
    let n = b.len();
    // sprinkle near-patterns
    if n >= 4 && r.chance(1, 3) {
        let p = r.below(n - 3);
        b[p..p + 4].copy_from_slice(b"DLT\x00");
    }
    if n >= 4 && r.chance(1, 4) {
        let p = r.below(n - 3);
        b[p..p + 4].copy_from_slice(b"DDLT");
    }
    if n >= 4 && r.chance(1, 3) {
        // a near miss of the pattern: one byte off by one, two bytes swapped, or two neighbouring
        // bytes changed by (-1, +B) / (+1, -B) — what collides with the pattern under a polynomial
        // fingerprint of base B, a checksum, or a comparison that skips a byte
        let mut w = *b"DLT\x01";
        match r.below(4) {
            0 => {
                let i = r.below(4);
                w[i] = if r.bool() { w[i].wrapping_add(1) } else { w[i].wrapping_sub(1) };
            }
            1 => {
                let i = r.below(3);
                w.swap(i, i + 1);
            }
            2 => {
                let i = r.below(4);
                w[i] ^= 0x20; // case
            }
            _ => {
                let i = r.below(3);
                let base = *r.pick(&[31i32, 33, 37, 65, 127, 131, 2, 16, 255]);
                let sign = if r.bool() { 1 } else { -1 };
                let (x, y) = (w[i] as i32 - sign, w[i + 1] as i32 + sign * base);
                if (0..256).contains(&x) && (0..256).contains(&y) {
                    w[i] = x as u8;
                    w[i + 1] = y as u8;
                }
            }
        }
        let p = r.below(n - 3);
        b[p..p + 4].copy_from_slice(&w);
    }
    // bias the end towards a partial pattern
    match r.below(6) {
        0 if n >= 1 => b[n - 1] = b'D',
        1 if n >= 2 => b[n - 2..].copy_from_slice(b"DL"),
        2 if n >= 3 => b[n - 3..].copy_from_slice(b"DLT"),
        _ => {}
    }
    // make it pattern-free by construction
    while let Some(i) = crate::model::naive_find(&b) {
        b[i + 3] = 0x02;
    }
    b
}

pub fn junk_rec(r: &mut Rng) -> Rec {
    let b = junk_block(r);
    let n = b.len();
    Rec {
        bytes: b,
        regs: if n > 0 { vec![Reg { start: 0, end: n, kind: Region::Junk }] } else { vec![] },
        kind: "junk",
        foreign: false,
    }
}

/// Apply a fault plan to a list of clean records and lay the result out on a medium.
pub fn build_medium(recs: &mut Vec<Rec>, r: &mut Rng, plan: &FaultPlan, st: &mut Stats) -> Medium {
    let mut m = Medium { aligned: true, ..Default::default() };
    let mut trunc = false;
    let mut tail = plan.pfx_tail_pair;
    let mut block_ops: Vec<usize> = vec![];
    let payload_only = plan.confine == Confine::Payload;
    let mut in_rec_faults: Vec<(usize, usize, u8)> = vec![]; // (record idx, offset in record, kind)
    // torn write: the medium ends inside record `torn.0` after `torn.1` bytes, a fill tail follows
    let mut torn: Option<(usize, usize)> = None;

    let real: Vec<usize> = recs.iter().enumerate().filter(|(_, x)| x.kind != "junk").map(|(i, _)| i).collect();
    if plan.pfx_tail_pair && !real.is_empty() {
        // F-PFX = FFFF on a length prefix (name-size prefixes preferred), with a long tail
        let ri = *r.pick(&real);
        let be = {
            let rec = &recs[ri];
            let sl = rec.regs.iter().find(|g| g.kind == Region::Htyp).map(|g| g.start).unwrap_or(0);
            rec.bytes[sl] & 0x02 != 0
        };
        let _ = be;
        let want_torn = r.bool();
        let g = if want_torn {
            // the last length prefix of the record: whatever follows it comes from the fill
            recs[ri].regs.iter().filter(|g| g.kind == Region::LenPrefix).last().cloned()
        } else {
            pick_region(r, &recs[ri], true, Some(&[Region::LenPrefix])).cloned()
        };
        if let Some(g) = g {
            let o = if want_torn { g.start } else if g.end - g.start >= 4 && r.bool() { g.start + 2 } else { g.start };
            if recs[ri].bytes[o] != 0xff || recs[ri].bytes[o + 1] != 0xff {
                recs[ri].bytes[o] = 0xff;
                recs[ri].bytes[o + 1] = 0xff;
                st.inc("F-PFX");
                st.inc("F-PFX=FFFF+tail");
                in_rec_faults.push((ri, o, F_PFX as u8));
                m.notes.push(format!("F-PFX rec{} off{} =FFFF (paired with tail)", ri, o));
                if want_torn {
                    // torn write right after the prefix group: what follows is the fill of the
                    // never-written sectors (0xFF on flash, blanks, ...), i.e. NUL-free bytes
                    torn = Some((ri, g.end));
                    st.inc("F-TORN+fill");
                    m.notes.push(format!("torn write: medium ends in rec{} after {} bytes, fill tail follows", ri, g.end));
                }
            }
        }
    }

    for _ in 0..plan.count {
        let k = r.weighted(&plan.w);
        if plan.w[k] == 0 {
            continue;
        }
        match k {
            F_JUNK => {
                let at = r.below(recs.len() + 1);
                let j = junk_rec(r);
                if !j.bytes.is_empty() {
                    st.inc("F-JUNK");
                    m.notes.push(format!("F-JUNK {} bytes before element {}", j.bytes.len(), at));
                }
                // shift recorded in-record fault indices
                for f in in_rec_faults.iter_mut() {
                    if f.0 >= at {
                        f.0 += 1;
                    }
                }
                recs.insert(at, j);
            }
            F_ORPHAN => {
                let at = r.below(recs.len() + 1);
                let n = match r.below(8) {
                    0..=3 => 1,
                    4 => 2 + r.below(3),
                    5 => 500 + r.below(200),
                    6 => 2_000,
                    _ => 12_000,
                };
                let mut b = Vec::with_capacity(16 * n);
                let constant = r.bool();
                for _ in 0..n {
                    b.extend_from_slice(b"DLT\x01");
                    if constant {
                        b.extend_from_slice(&[0u8; 8]);
                        b.extend_from_slice(b"ECU\0");
                    } else {
                        b.extend(r.bytes(12));
                    }
                }
                st.inc("F-ORPHAN");
                m.notes.push(format!("F-ORPHAN {} storage header(s) without message before element {}", n, at));
                for f in in_rec_faults.iter_mut() {
                    if f.0 >= at {
                        f.0 += 1;
                    }
                }
                recs.insert(at, Rec { regs: vec![Reg { start: 0, end: b.len(), kind: Region::Junk }], bytes: b, kind: "junk", foreign: false });
                m.aligned = false;
            }
            F_DROP | F_ZERO | F_DUP => block_ops.push(k),
            F_TRUNC => trunc = true,
            F_TAIL => tail = true,
            _ => {
                let real: Vec<usize> =
                    recs.iter().enumerate().filter(|(_, x)| x.kind != "junk").map(|(i, _)| i).collect();
                if real.is_empty() {
                    continue;
                }
                let ri = *r.pick(&real);
                let rec = &mut recs[ri];
                let hdr = rec.regs.iter().find(|g| g.kind == Region::Htyp).map(|g| g.start).unwrap_or(0);
                match k {
                    F_AMP => {
                        // the largest value region of the record, if it is a bulk one
                        let Some(g) = rec.regs.iter().filter(|g| g.kind == Region::Value && g.end - g.start >= 2048).max_by_key(|g| g.end - g.start).cloned() else { continue };
                        let l = g.end - g.start - 1; // without the terminator
                        // first feasible (expansion factor, target) pair, starting at a random one
                        let combos: [(usize, usize); 12] = [
                            (3, 65_535), (3, 65_536), (2, 65_535), (4, 65_535), (6, 65_535), (3, 65_534), (2, 65_536), (4, 65_536), (3, 32_767), (3, 32_768), (2, 32_768), (6, 65_536),
                        ];
                        let off = r.below(combos.len());
                        let mut found = None;
                        for i in 0..combos.len() {
                            let (k_exp, target) = combos[(off + i) % combos.len()];
                            if target > l && (target - l) % (k_exp - 1) == 0 {
                                let a = (target - l) / (k_exp - 1);
                                if a >= 1 && a <= l {
                                    found = Some((k_exp, target, a));
                                    break;
                                }
                            }
                        }
                        let Some((k_exp, target, a)) = found else { continue };
                        let byte = *r.pick(&[0xffu8, 0x80, 0xe4, 0xc0, 0xfe]);
                        for x in &mut rec.bytes[g.start..g.start + a] {
                            *x = byte;
                        }
                        // the rest must stay what it was: plain bytes that decode one to one
                        for x in &mut rec.bytes[g.start + a..g.start + l] {
                            if *x >= 0x80 || *x == 0 {
                                *x = b'a';
                            }
                        }
                        st.inc("F-AMP");
                        in_rec_faults.push((ri, g.start, k as u8));
                        m.notes.push(format!("F-AMP rec{}: {} x {:02x} in a {}-byte field ({}-fold expansion would give {})", ri, a, byte, l, k_exp, target));
                    }
                    F_FLIP | F_BYTE => {
                        let Some(g) = pick_region(r, rec, payload_only, None).cloned() else { continue };
                        // keep LEN intact unless allowed to touch it
                        if plan.confine == Confine::Payload && matches!(g.kind, Region::Len0 | Region::Len1 | Region::Htyp) {
                            continue;
                        }
                        let o = off_in(r, &g);
                        let old = rec.bytes[o];
                        let new = if k == F_FLIP {
                            old ^ (1 << r.below(8))
                        } else {
                            let rnd = r.u8();
                            let lit = crate::dict::num_below(r, 0xff).unwrap_or(0) as u8;
                            *r.pick(&[0x00u8, 0xff, 0x7f, 0x80, rnd, lit])
                        };
                        if new != old {
                            rec.bytes[o] = new;
                            st.inc(FAULT_KEYS[k]);
                            in_rec_faults.push((ri, o, k as u8));
                            m.notes.push(format!("{} rec{} off{} {:02x}->{:02x} ({:?})", FAULT_KEYS[k], ri, o, old, new, g.kind));
                        }
                    }
                    F_LEN => {
                        let o = hdr + 2;
                        let truelen = ((rec.bytes[o] as usize) << 8) | rec.bytes[o + 1] as usize;
                        let hl = crate::model::all_headers_len(rec.bytes[hdr]);
                        let v: usize = match r.below(13) {
                            12 => crate::dict::num_below(r, 0xffff).unwrap_or(0) as usize,
                            0 => 0,
                            1 => 1,
                            2 => 2,
                            3 => 3,
                            4 => hl.saturating_sub(1),
                            5 => hl,
                            6 => truelen.saturating_sub(1),
                            7 => truelen + 1,
                            8 => truelen + 1 + r.below(40),
                            9 => 0xffff,
                            10 => 4,
                            _ => r.below(0x10000),
                        }
                        .min(0xffff);
                        if v != truelen {
                            rec.bytes[o] = (v >> 8) as u8;
                            rec.bytes[o + 1] = v as u8;
                            st.inc("F-LEN");
                            if v < 4 {
                                st.inc("F-LEN<4");
                            }
                            in_rec_faults.push((ri, o, k as u8));
                            m.notes.push(format!("F-LEN rec{} {}->{}", ri, truelen, v));
                            m.aligned = false;
                        }
                    }
                    F_NOAR => {
                        let Some(g) = rec.regs.iter().find(|g| g.kind == Region::Noar).cloned() else { continue };
                        let old = rec.bytes[g.start];
                        let new = match r.below(6) {
                            0 => 0,
                            1 => old.wrapping_add(1),
                            2 => old.wrapping_sub(1),
                            3 => 255,
                            _ => r.u8(),
                        };
                        if new != old {
                            rec.bytes[g.start] = new;
                            st.inc("F-NOAR");
                            in_rec_faults.push((ri, g.start, k as u8));
                            m.notes.push(format!("F-NOAR rec{} {}->{}", ri, old, new));
                        }
                    }
                    F_VERB => {
                        let Some(g) = rec.regs.iter().find(|g| g.kind == Region::Msin).cloned() else { continue };
                        rec.bytes[g.start] ^= 1;
                        st.inc("F-VERB");
                        in_rec_faults.push((ri, g.start, k as u8));
                        m.notes.push(format!("F-VERB rec{}", ri));
                    }
                    F_TI => {
                        let Some(g) = pick_region(r, rec, true, Some(&[Region::TypeInfo])).cloned() else { continue };
                        let o = g.start + r.below(4);
                        let old = rec.bytes[o];
                        let new = match r.below(4) {
                            0 => old ^ (1 << r.below(8)),
                            1 => 0,
                            2 => 0xff,
                            _ => r.u8(),
                        };
                        if new != old {
                            rec.bytes[o] = new;
                            st.inc("F-TI");
                            in_rec_faults.push((ri, o, k as u8));
                            m.notes.push(format!("F-TI rec{} off{} {:02x}->{:02x}", ri, o, old, new));
                        }
                    }
                    F_PFX => {
                        let Some(g) = pick_region(r, rec, true, Some(&[Region::LenPrefix])).cloned() else { continue };
                        let o = if g.end - g.start >= 4 && r.bool() { g.start + 2 } else { g.start };
                        let be = rec.bytes[hdr] & 0x02 != 0;
                        let old = if be {
                            ((rec.bytes[o] as u16) << 8) | rec.bytes[o + 1] as u16
                        } else {
                            ((rec.bytes[o + 1] as u16) << 8) | rec.bytes[o] as u16
                        };
                        let new: u16 = match r.below(8) {
                            0 => 0,
                            1 => 1,
                            2 => old.wrapping_sub(1),
                            3 => old.wrapping_add(1),
                            4 => 0x7fff,
                            5 => 0xffff,
                            6 => old.wrapping_add(1 + r.below(8) as u16),
                            _ => r.u32() as u16,
                        };
                        if new != old {
                            let b = if be { new.to_be_bytes() } else { new.to_le_bytes() };
                            rec.bytes[o] = b[0];
                            rec.bytes[o + 1] = b[1];
                            st.inc("F-PFX");
                            in_rec_faults.push((ri, o, k as u8));
                            m.notes.push(format!("F-PFX rec{} off{} {}->{}", ri, o, old, new));
                        }
                    }
                    _ => {}
                }
            }
        }
    }

    // lay out
    for (idx, rec) in recs.iter().enumerate() {
        if let Some((ri, keep)) = torn {
            if idx == ri {
                let base = m.bytes.len();
                m.starts.push(base);
                m.bytes.extend_from_slice(&rec.bytes[..keep.min(rec.bytes.len())]);
                m.aligned = false;
                break;
            }
        }
        let base = m.bytes.len();
        m.starts.push(base);
        m.boundaries.push(base);
        for g in &rec.regs {
            if g.start > 0 {
                m.boundaries.push(base + g.start);
            }
            m.region_starts.push((base + g.start, g.kind as u8));
        }
        if rec.kind != "junk" {
            m.n_records += 1;
        }
        m.bytes.extend_from_slice(&rec.bytes);
    }
    m.boundaries.push(m.bytes.len());
    m.region_starts.sort_unstable();
    m.boundaries.sort_unstable();
    m.boundaries.dedup();
    for (ri, o, k) in in_rec_faults {
        if ri < m.starts.len() {
            m.fault_sites.push((m.starts[ri] + o, k));
        }
    }

    // block-level damage (moves / destroys record boundaries)
    for k in block_ops {
        if m.bytes.is_empty() {
            continue;
        }
        let at = if r.bool() && !m.boundaries.is_empty() {
            (*r.pick(&m.boundaries)).min(m.bytes.len() - 1)
        } else {
            r.below(m.bytes.len())
        };
        let n = (1 + r.geometric(12, 600)).min(m.bytes.len() - at);
        match k {
            F_DROP => {
                m.bytes.drain(at..at + n);
                st.inc("F-DROP");
                m.notes.push(format!("F-DROP {}+{}", at, n));
            }
            F_ZERO => {
                if m.bytes[at..at + n].iter().any(|b| *b != 0) {
                    for b in &mut m.bytes[at..at + n] {
                        *b = 0;
                    }
                    st.inc("F-ZERO");
                    m.notes.push(format!("F-ZERO {}+{}", at, n));
                }
            }
            _ => {
                let blk = m.bytes[at..at + n].to_vec();
                let tail = m.bytes.split_off(at);
                m.bytes.extend_from_slice(&blk);
                m.bytes.extend(tail);
                st.inc("F-DUP");
                m.notes.push(format!("F-DUP {}+{}", at, n));
            }
        }
        m.aligned = false;
    }
    if tail {
        m.tail_from = Some(m.bytes.len());
        let n = 65536 + r.below(8192);
        let flavour = if torn.is_some() { 3 + r.below(2) } else { r.below(5) };
        let t = match flavour {
            0 => r.bytes(n),
            3 => vec![*r.pick(&[0xffu8, 0x20, b'A', 0x55]); n], // fill byte of unwritten sectors
            1 => {
                // structured: printable text without NUL (keeps string arguments going)
                let mut v = vec![0u8; n];
                for b in v.iter_mut() {
                    *b = 0x20 + r.below(0x5f) as u8;
                }
                v
            }
            2 => {
                // repeat the medium itself (or 'A's when empty)
                let mut v = Vec::with_capacity(n);
                while v.len() < n {
                    if m.bytes.is_empty() {
                        v.push(b'A');
                    } else {
                        let take = (n - v.len()).min(m.bytes.len());
                        let chunk = m.bytes[..take].to_vec();
                        v.extend_from_slice(&chunk);
                    }
                }
                v
            }
            _ => {
                // printable text in long runs
                let mut v = vec![0u8; n];
                for b in v.iter_mut() {
                    *b = b'a' + r.below(26) as u8;
                }
                v
            }
        };
        m.bytes.extend(t);
        st.inc("F-TAIL");
        m.notes.push(format!("F-TAIL {} bytes", n));
    }
    if trunc && !m.bytes.is_empty() {
        let at = if r.bool() {
            (*r.pick(&m.boundaries)).min(m.bytes.len())
        } else {
            r.below(m.bytes.len())
        };
        let at = match r.below(3) {
            0 => at.saturating_sub(1),
            1 => (at + 1).min(m.bytes.len()),
            _ => at,
        };
        if at < m.bytes.len() {
            m.bytes.truncate(at);
            m.truncated_at = Some(at);
            st.inc("F-TRUNC");
            m.notes.push(format!("F-TRUNC at {}", at));
        }
    }
    m
}
