//! Source dictionary: the integer and string literals that occur in the sources of the crate under
//! test (`/repo/src/**/*.rs`, or `$VERIF_REPO_SRC`). A change that makes behaviour hinge on one
//! particular value — a magic session id, a size threshold, a keyword — has to spell that value
//! in the source; structured-random generation would need 2^16 or 2^32 runs to hit it, a
//! dictionary needs a few hundred. The generators draw from it with small probability wherever
//! they draw a number, an id, a text or a size (the same idea as a fuzzer's dictionary, used here
//! only to shape the seeded workload). Read once per process; sorted and deduplicated, so the
//! workload is a function of (VERIF_SEED, sources of the crate under test) and of nothing else.

use crate::rng::Rng;
use std::sync::OnceLock;

pub struct Dict {
    pub nums: Vec<u64>,
    pub strs: Vec<String>,
    /// byte strings: the string literals as bytes (incl. non-UTF-8 `b"..."`) and array literals of
    /// byte-sized numbers (`[0x44, 0x4c, 0x54, 0x01]`)
    pub blobs: Vec<Vec<u8>>,
}

static DICT: OnceLock<Dict> = OnceLock::new();

fn src_dir() -> String {
    std::env::var("VERIF_REPO_SRC").unwrap_or_else(|_| "/repo/src".into())
}

fn collect_files(dir: &std::path::Path, out: &mut Vec<std::path::PathBuf>) {
    let Ok(rd) = std::fs::read_dir(dir) else { return };
    let mut entries: Vec<_> = rd.filter_map(|e| e.ok()).map(|e| e.path()).collect();
    entries.sort();
    for p in entries {
        if p.is_dir() {
            // the crate's own tests are not shipped behaviour
            if p.file_name().map_or(false, |n| n == "tests") {
                continue;
            }
            collect_files(&p, out);
        } else if p.extension().map_or(false, |x| x == "rs") {
            out.push(p);
        }
    }
}

fn parse_num(tok: &str) -> Option<u64> {
    let mut t: String = tok.chars().filter(|c| *c != '_').collect();
    for suf in ["usize", "isize", "u128", "i128", "u64", "i64", "u32", "i32", "u16", "i16", "u8", "i8", "f32", "f64"] {
        if t.ends_with(suf) {
            t.truncate(t.len() - suf.len());
            break;
        }
    }
    if let Some(h) = t.strip_prefix("0x") {
        u64::from_str_radix(h, 16).ok()
    } else if let Some(h) = t.strip_prefix("0b") {
        u64::from_str_radix(h, 2).ok()
    } else if let Some(h) = t.strip_prefix("0o") {
        u64::from_str_radix(h, 8).ok()
    } else {
        t.parse::<u64>().ok()
    }
}

fn scan(text: &str, nums: &mut Vec<u64>, strs: &mut Vec<String>, blobs: &mut Vec<Vec<u8>>) {
    let b = text.as_bytes();
    let mut i = 0;
    while i < b.len() {
        let c = b[i];
        if c == b'[' {
            // an array literal made of byte-sized numbers only
            if let Some(end) = (i + 1..b.len().min(i + 400)).find(|j| b[*j] == b']') {
                let inner = &text[i + 1..end];
                let parts: Vec<&str> = inner.split(',').map(|p| p.trim()).filter(|p| !p.is_empty()).collect();
                if parts.len() >= 2 && parts.len() <= 64 {
                    let vals: Vec<Option<u64>> = parts.iter().map(|p| if p.as_bytes()[0].is_ascii_digit() { parse_num(p) } else { None }).collect();
                    if vals.iter().all(|v| matches!(v, Some(x) if *x <= 255)) {
                        blobs.push(vals.iter().map(|v| v.unwrap() as u8).collect());
                    }
                }
            }
        }
        // line comments: literals in prose are not behaviour
        if c == b'/' && i + 1 < b.len() && b[i + 1] == b'/' {
            while i < b.len() && b[i] != b'\n' {
                i += 1;
            }
            continue;
        }
        if c == b'"' {
            // string literal (also the body of b"..." and r"..."); escapes decoded loosely
            let mut s: Vec<u8> = vec![];
            i += 1;
            while i < b.len() && b[i] != b'"' {
                if b[i] == b'\\' && i + 1 < b.len() {
                    match b[i + 1] {
                        b'n' => s.push(b'\n'),
                        b't' => s.push(b'\t'),
                        b'r' => s.push(b'\r'),
                        b'0' => s.push(0),
                        b'x' if i + 3 < b.len() => {
                            if let Ok(v) = u8::from_str_radix(std::str::from_utf8(&b[i + 2..i + 4]).unwrap_or("00"), 16) {
                                s.push(v);
                            }
                            i += 2;
                        }
                        o => s.push(o),
                    }
                    i += 2;
                } else {
                    s.push(b[i]);
                    i += 1;
                }
            }
            i += 1;
            if !s.is_empty() && s.len() <= 48 {
                blobs.push(s.clone());
                if let Ok(t) = String::from_utf8(s) {
                    if !t.contains('{') {
                        strs.push(t);
                    }
                }
            }
            continue;
        }
        if c == b'\'' && i + 2 < b.len() && b[i + 2] == b'\'' {
            nums.push(b[i + 1] as u64);
            i += 3;
            continue;
        }
        if c.is_ascii_digit() && (i == 0 || !(b[i - 1].is_ascii_alphanumeric() || b[i - 1] == b'_')) {
            let start = i;
            while i < b.len() && (b[i].is_ascii_alphanumeric() || b[i] == b'_') {
                i += 1;
            }
            if let Some(v) = parse_num(&text[start..i]) {
                nums.push(v);
            }
            continue;
        }
        i += 1;
    }
}

pub fn dict() -> &'static Dict {
    DICT.get_or_init(|| {
        let mut files = vec![];
        collect_files(std::path::Path::new(&src_dir()), &mut files);
        let (mut nums, mut strs, mut blobs) = (vec![], vec![], vec![]);
        for f in files {
            if let Ok(t) = std::fs::read_to_string(&f) {
                scan(&t, &mut nums, &mut strs, &mut blobs);
            }
        }
        blobs.sort();
        blobs.dedup();
        if blobs.is_empty() {
            blobs.push(b"DLT\x01".to_vec());
        }
        // neighbours of every literal: off-by-one guards live next to the constant
        // `u16::MAX` and friends are spelled as paths, not as literals
        let mut all: Vec<u64> = vec![127, 128, 255, 256, 32_767, 32_768, 65_535, 65_536, 0x7fff_ffff, 0x8000_0000, 0xffff_ffff, 0x1_0000_0000];
        for n in &nums {
            all.push(*n);
            all.push(n.wrapping_add(1));
            all.push(n.wrapping_sub(1));
        }
        all.sort_unstable();
        all.dedup();
        strs.sort();
        strs.dedup();
        if all.is_empty() {
            all.push(0);
        }
        if strs.is_empty() {
            strs.push("DLT".into());
        }
        Dict { nums: all, strs, blobs }
    })
}

/// a literal of the source (or a neighbour) that fits below `max` (inclusive), if any
pub fn num_below(r: &mut Rng, max: u64) -> Option<u64> {
    let d = dict();
    let hi = d.nums.partition_point(|n| *n <= max);
    if hi == 0 {
        None
    } else {
        Some(d.nums[r.below(hi)])
    }
}
pub fn num(r: &mut Rng) -> u64 {
    let d = dict();
    d.nums[r.below(d.nums.len())]
}
pub fn blob(r: &mut Rng) -> &'static [u8] {
    let d = dict();
    &d.blobs[r.below(d.blobs.len())]
}
/// a short byte-string literal (2..=8 bytes: markers, magic numbers, tags), if there is one
pub fn short_blob(r: &mut Rng) -> &'static [u8] {
    let d = dict();
    let short: Vec<&Vec<u8>> = d.blobs.iter().filter(|b| b.len() >= 2 && b.len() <= 8).collect();
    if short.is_empty() {
        blob(r)
    } else {
        short[r.below(short.len())]
    }
}
pub fn string(r: &mut Rng) -> &'static str {
    let d = dict();
    &d.strs[r.below(d.strs.len())]
}
/// a string literal of at most `max` bytes, if any
pub fn string_upto(r: &mut Rng, max: usize) -> Option<&'static str> {
    for _ in 0..4 {
        let s = string(r);
        if s.len() <= max {
            return Some(s);
        }
    }
    None
}
