//! S-POLL — C08: the async reader delivers what the blocking reader delivers, on any schedule.

use crate::case::{GenInfo, StreamCase};
use crate::core::{guarded, panic_site, run_seed, RunResult, Stats, Tier, Violation};
use crate::exec::Executor;
use crate::faults::Confine;
use crate::model::{cut_all_lim, read_res, Cut, Res};
use crate::rng::{Fnv, Rng};
use crate::scen_common::{build, draw_capacities, draw_filter, draw_tight_capacities, BuildOpts, CallPlan, Next};
use crate::source::{Core, Dec, ParkLot, Policy, ScriptedPoll};
use dlt_core::filtering::ProcessedDltFilterConfig;
use dlt_core::read::DltMessageReader;
use dlt_core::stream::DltStreamReader;
use std::cell::RefCell;
use std::rc::Rc;

pub const TAG: u64 = 0xC08;

pub fn generate(seed: u64, run: u64, _tier: Tier, st: &mut Stats) -> StreamCase {
    let s = run_seed(seed, TAG, run);
    let mut rw = Rng::fork(s, 1);
    let mut rf = Rng::fork(s, 2);
    let mut rs = Rng::fork(s, 3);
    let storage = rw.bool();
    let ntasks = *rs.pick(&[1usize, 1, 1, 2, 3, 4]);
    let mut media = vec![];
    let mut policies = vec![];
    let mut notes = vec![];
    let mut alphabet = 4;
    for t in 0..ntasks {
        let confine = if rf.bool() { Confine::Any } else { Confine::InRecord };
        let b = build(
            &mut rw,
            &mut rf,
            &BuildOpts { max_records: if t == 0 { 30 } else { 8 }, confine, clean_pct: 40, foreign_pct: 3, storage: Some(storage), stats_swarm: false, soup_pct: 6, wide_records: 0 },
            st,
        );
        alphabet = b.swarm.id_alphabet;
        let mut p = Policy::draw(&mut rs, b.medium.boundaries.clone(), true);
        let len = b.medium.bytes.len();
        if rs.chance(1, 8) {
            p.eof_at = Some(if rs.bool() && !b.medium.boundaries.is_empty() { *rs.pick(&b.medium.boundaries) } else { rs.below(len + 1) });
        } else if rs.chance(1, 10) {
            p.err_at = Some((rs.below(len + 1), rs.below(5) as u8));
        }
        for n in &b.medium.notes {
            notes.push(format!("task{}: {}", t, n));
        }
        media.push(b.medium.bytes);
        policies.push(p);
    }
    // one reader configuration for all tasks; legal for every medium
    let mut biggest: &Vec<u8> = &media[0];
    for m in &media {
        if crate::model::max_declared(m, storage) > crate::model::max_declared(biggest, storage) {
            biggest = m;
        }
    }
    // 1 run in 6: the first task's source reports end of file once at one or two record
    // boundaries and then goes on (a log file that is still being written); the reader is called
    // again, as a follower would, and must go on delivering exactly like the blocking reader
    let mut aux: Vec<u64> = vec![];
    if rs.chance(1, 6) {
        let (pieces, _) = crate::model::cut_all(&media[0], storage);
        let mut cands: Vec<usize> = pieces.iter().map(|(_, e)| *e).filter(|e| *e < media[0].len()).collect();
        cands.insert(0, 0);
        if media[0].len() > 0 {
            policies[0].eof_at = None;
            policies[0].err_at = None;
            let k = 1 + rs.below(2);
            for _ in 0..k {
                let s = *rs.pick(&cands) as u64;
                if !aux.contains(&s) {
                    aux.push(s);
                }
            }
        }
    }
    let (mut buf_cap, mut msg_max) = draw_capacities(&mut rs, biggest, storage, 4);
    let filter = draw_filter(&mut rw, alphabet, 30);
    let sched_seed = rs.next_u64();
    let mut rt = Rng::fork(s, 4);
    let mut tight_max = false;
    if rt.chance(1, 12) {
        if let Some((b2, m2)) = draw_tight_capacities(&mut rt, biggest, storage) {
            buf_cap = b2;
            msg_max = m2;
            tight_max = true;
        }
    }
    let mut case = StreamCase {
        prop: "C08".into(),
        mode: "poll".into(),
        storage,
        medium: media[0].clone(),
        filter,
        buf_cap,
        msg_max,
        tight_max,
        aux,
        gen: Some(GenInfo { policy: policies[0].clone(), sched_seed, co_policies: policies[1..].to_vec() }),
        notes,
        seed,
        run,
        ..Default::default()
    };
    for t in 1..ntasks {
        case.tasks.push((media[t].clone(), vec![]));
    }
    case
}

pub struct TaskOut {
    pub results: Vec<Res>,
    pub terminal_calls: usize,
}

/// blocking source for the reference reader with the same transient ends of file
struct SegRead<'a> {
    data: &'a [u8],
    pos: usize,
    stops: Vec<(usize, bool)>,
}
impl<'a> std::io::Read for SegRead<'a> {
    fn read(&mut self, buf: &mut [u8]) -> std::io::Result<usize> {
        let pos = self.pos;
        if pos >= self.data.len() || buf.is_empty() {
            return Ok(0);
        }
        if let Some(t) = self.stops.iter_mut().find(|(o, f)| *o == pos && !*f) {
            t.1 = true;
            return Ok(0);
        }
        let mut n = buf.len().min(self.data.len() - pos);
        if let Some(next) = self.stops.iter().filter(|(o, f)| !*f && *o > pos).map(|(o, _)| *o).min() {
            n = n.min(next - pos);
        }
        buf[..n].copy_from_slice(&self.data[pos..pos + n]);
        self.pos += n;
        Ok(n)
    }
}

#[allow(clippy::too_many_arguments)]
async fn reader_task(
    src: ScriptedPoll,
    core: Rc<RefCell<Core>>,
    data: Rc<Vec<u8>>,
    storage: bool,
    caps: (usize, usize),
    filter: Option<ProcessedDltFilterConfig>,
    out: Rc<RefCell<TaskOut>>,
    stops: Vec<usize>,
) {
    let mut reader = if caps == (0, 0) {
        DltStreamReader::new(src, storage)
    } else {
        DltStreamReader::with_capacity(caps.0, caps.1, src, storage)
    };
    let mut plan = CallPlan::new_lim(&data, storage, caps.1).with_stops(&stops);
    let mut ncalls = 0usize;
    loop {
        // either public entry point (see scen_common::reader_call)
        let r = if crate::scen_common::via_slice(ncalls, data.len()) {
            let sh = reader.with_storage_header();
            match reader.next_message_slice().await {
                Err(e) => Err(e),
                Ok(slice) if slice.is_empty() => Ok(None),
                Ok(slice) => dlt_core::parse::dlt_message(slice, filter.as_ref(), sh).map(|x| Some(x.1)).map_err(|e| e.into()),
            }
        } else {
            dlt_core::stream::read_message(&mut reader, filter.as_ref()).await
        };
        ncalls += 1;
        let res = read_res(&r);
        drop(r);
        let failed = core.borrow().failed.is_some();
        let next = plan.after(&res, failed);
        let mut o = out.borrow_mut();
        o.results.push(res);
        o.terminal_calls = plan.terminal_calls;
        if next == Next::Stop {
            break;
        }
    }
}

/// reference: the blocking reader over the same bytes, always ready, never fragmenting
pub fn reference(eff: &[u8], storage: bool, caps: (usize, usize), filter: Option<&ProcessedDltFilterConfig>, stops: &[usize]) -> (Vec<Res>, usize) {
    let src = SegRead { data: eff, pos: 0, stops: stops.iter().map(|s| (*s, false)).collect() };
    let mut reader = if caps == (0, 0) {
        DltMessageReader::new(src, storage)
    } else {
        DltMessageReader::with_capacity(caps.0, caps.1, src, storage)
    };
    let mut plan = CallPlan::new_lim(eff, storage, caps.1).with_stops(stops);
    let mut results = vec![];
    loop {
        let r = match guarded(|| dlt_core::read::read_message(&mut reader, filter)) {
            Ok(r) => read_res(&r),
            Err(p) => Res::Panic(p),
        };
        let next = plan.after(&r, false);
        results.push(r);
        if next == Next::Stop {
            break;
        }
    }
    (results, plan.terminal_calls)
}

pub struct Exec {
    pub violations: Vec<Violation>,
    pub hist: u64,
    pub taken: Vec<Vec<Dec>>,
    pub exec_taken: Vec<u8>,
    pub nontrivial: bool,
    pub key: u64,
}

pub fn execute(case: &StreamCase, st: &mut Stats) -> Exec {
    let caps = (case.buf_cap, case.msg_max);
    let filter = case.filter.as_ref().map(|f| f.processed());
    let lot: ParkLot = Rc::new(RefCell::new(vec![]));
    let mut media: Vec<Rc<Vec<u8>>> = vec![Rc::new(case.medium.clone())];
    let mut scripts: Vec<Vec<Dec>> = vec![case.script.clone()];
    for (m, s) in &case.tasks {
        media.push(Rc::new(m.clone()));
        scripts.push(s.clone());
    }
    let gen_policies: Vec<Policy> = match &case.gen {
        Some(g) => std::iter::once(g.policy.clone()).chain(g.co_policies.iter().cloned()).collect(),
        None => vec![],
    };
    let sched_seed = case.gen.as_ref().map(|g| g.sched_seed);
    let mut cores = vec![];
    let mut outs = vec![];
    let exec_rng = sched_seed.map(|s| Rng::fork(s, 99));
    let mut ex = Executor::new(lot.clone(), case.exec.clone(), exec_rng);
    for (t, data) in media.iter().enumerate() {
        let (policy, rng) = match sched_seed {
            Some(s) => (gen_policies.get(t).cloned(), Rng::fork(s, t as u64)),
            None => (None, Rng::new(0)),
        };
        let core = Rc::new(RefCell::new(Core::new(data.clone(), scripts[t].clone(), policy, rng)));
        // transient ends of file of the first task (aux)
        let stops: Vec<usize> = if t == 0 { case.aux.iter().map(|x| *x as usize).filter(|x| *x < data.len()).collect() } else { vec![] };
        core.borrow_mut().teof = stops.iter().map(|s| (*s, false)).collect();
        let out = Rc::new(RefCell::new(TaskOut { results: vec![], terminal_calls: 0 }));
        let src = ScriptedPoll { core: core.clone(), lot: lot.clone(), task: t };
        ex.spawn(Box::pin(reader_task(src, core.clone(), data.clone(), case.storage, caps, filter.clone(), out.clone(), stops)));
        cores.push(core);
        outs.push(out);
    }
    // progress budget: polls needed <= P decisions + 1 per task; allow twice that plus slack
    // every step is a poll (consumes at least one decision or finishes a task) or a wake event
    // (at most two per Pending decision); decisions <= bytes + Pending decisions + a few
    let mut step_cap = 64u64;
    for (t, m) in media.iter().enumerate() {
        step_cap += 8 * (3 * m.len() as u64 + scripts[t].len() as u64 + 128);
    }
    ex.run(step_cap);

    let mut v = vec![];
    let mut h = Fnv::default();
    let mut nontrivial = false;
    let mut key = Fnv::default();
    for t in 0..media.len() {
        let core = cores[t].borrow();
        let out = outs[t].borrow();
        let data = &media[t];
        let failed = core.failed.is_some();
        let eff: &[u8] = if failed || core.eof_forced { &data[..core.pos] } else { &data[..] };
        let (pieces, term) = cut_all_lim(eff, case.storage, case.msg_max);
        let mut results = out.results.clone();
        if let Some(p) = &ex.tasks[t].panicked {
            results.push(Res::Panic(p.clone()));
        }
        let unfinished = ex.tasks[t].fut.is_some();
        h.u64(core.log.0);
        for r in &results {
            h.str(&r.short());
        }
        key.bytes(data);
        key.u64(core.script_hash());
        st.add("source_calls", core.stats.calls);
        st.add("source_pending", core.stats.pending);
        st.add("source_short_reads", core.stats.short_reads);
        st.add("source_early_eof", core.stats.early_eof);
        st.add("source_hard_errors", core.stats.hard_errors);
        st.add("records_expected", pieces.len() as u64);
        match term {
            Cut::ShortLen(_) => st.inc("term_shortlen"),
            Cut::Oversize(_) => st.inc("term_oversize"),
            Cut::Eos(0) => st.inc("term_clean_eos"),
            Cut::Eos(_) => st.inc("term_partial_header"),
            Cut::Short { .. } => st.inc("term_short_record"),
            Cut::Piece(_) => {}
        }
        if !pieces.is_empty() && (core.inner_boundaries() > 0 || core.stats.pending > 0) {
            nontrivial = true;
        }
        if !v.is_empty() {
            continue;
        }
        // ---- oracle: compare with the blocking reader on the same (effective) bytes ----------
        let stops: Vec<usize> = if t == 0 && !failed && !core.eof_forced { case.aux.iter().map(|x| *x as usize).filter(|x| *x < data.len()).collect() } else { vec![] };
        st.add("source_transient_eof", core.stats.transient_eof);
        let (refr, ref_term_calls) = reference(eff, case.storage, caps, filter.as_ref(), &stops);
        if let Some(Res::Panic(p)) = results.iter().find(|r| r.is_panic()) {
            v.push(Violation::new("C08.c", &format!("panic@{}", panic_site(p)), format!("task {}: a poll panicked: {} (cutter at that point: {:?})", t, p, term)));
            continue;
        }
        if ex.stats.lost_wakeup && unfinished {
            v.push(Violation::new("C08.d", "lost-wakeup", format!("task {}: unfinished with no runnable task and no pending wake event after {} results", t, results.len())));
            continue;
        }
        if ex.stats.overrun && unfinished {
            v.push(Violation::new("C08.d", "no-progress", format!("task {}: step budget {} exhausted after {} results", t, step_cap, results.len())));
            continue;
        }
        let pdec = core.stats.pending;
        let allowed = 2 * (pdec + results.len() as u64) + 16;
        if ex.tasks[t].polls > allowed {
            v.push(Violation::new("C08.d", "too-many-polls", format!("task {}: {} polls for {} Pending decisions and {} calls", t, ex.tasks[t].polls, pdec, results.len())));
            continue;
        }
        // a) message sequence before the terminal. With transient ends of file the comparison ends
        // at the first "no more message": C08 speaks of the messages "followed by the ... terminal
        // outcome" (singular) — a reader that stays at its end of stream once it has reported it (a
        // fused reader) is as good as one that asks its source again; what the resumed calls must
        // still not do is panic (C08.c, above) or lose a wake-up (C08.d).
        let first_stop = stops.iter().copied().min();
        let n_main = match first_stop {
            Some(s0) => pieces.iter().filter(|p| p.1 <= s0).count(),
            None => pieces.len(),
        };
        let mut bad = false;
        for i in 0..n_main {
            let a = results.get(i);
            let b = refr.get(i);
            if a != b {
                v.push(Violation::new(
                    "C08.a",
                    "sequence-differs",
                    format!("task {} call {}: async reader {} vs blocking reader {}", t, i, a.map_or("<nothing>".into(), |r| r.short()), b.map_or("<nothing>".into(), |r| r.short())),
                ));
                bad = true;
                break;
            }
        }
        if bad {
            continue;
        }
        // b) terminal outcome of the same kind
        let a = results.get(n_main);
        let b = refr.get(n_main);
        if first_stop.is_some() {
            // the terminal outcome at the first transient end of file: both "no more message"
            if a != b {
                v.push(Violation::new(
                    "C08.b",
                    "terminal-differs",
                    format!("task {}: at the (first, transient) end of the source: async reader {} vs blocking reader {}", t, a.map_or("<nothing>".into(), |r| r.short()), b.map_or("<nothing>".into(), |r| r.short())),
                ));
            }
            continue;
        }
        if matches!(b, Some(r) if r.is_panic()) {
            // the blocking reader itself panics here: that is C07's finding, there is nothing to compare with
        } else if failed {
            if !matches!(a, Some(r) if *r == Res::None || r.is_err()) {
                v.push(Violation::new("C08.b", "terminal-after-io-error", format!("task {}: after a hard I/O error the async reader returned {:?}", t, a.map(|r| r.short()))));
                continue;
            }
        } else if a != b {
            v.push(Violation::new(
                "C08.b",
                "terminal-differs",
                format!("task {}: terminal outcome: async reader {} vs blocking reader {} (cutter: {:?})", t, a.map_or("<nothing>".into(), |r| r.short()), b.map_or("<nothing>".into(), |r| r.short()), term),
            ));
            continue;
        }
        // calls after the terminal: never a message
        for (i, r) in results.iter().enumerate().skip(n_main + 1) {
            if r.is_msg() {
                v.push(Violation::new("C08.b", "message-after-terminal", format!("task {} call {} after the terminal outcome returned {}", t, i, r.short())));
                break;
            }
        }
        let _ = (ref_term_calls, out.terminal_calls);
    }
    st.add("exec_steps", ex.stats.steps);
    st.add("exec_polls", ex.stats.polls);
    st.add("exec_spurious_polls", ex.stats.spurious_polls);
    st.add("exec_wake_events", ex.stats.wake_events);
    st.add("exec_double_wakes", ex.stats.double_wakes);
    st.add("exec_ticks", ex.stats.ticks);
    if media.len() > 1 {
        st.inc("runs_multi_task");
    }
    if case.tight_max {
        st.inc("runs_with_tight_message_max_len");
    }
    h.bytes(&ex.taken);
    key.bytes(&ex.taken);
    Exec {
        violations: v,
        hist: h.0,
        taken: cores.iter().map(|c| c.borrow().taken.clone()).collect(),
        exec_taken: ex.taken.clone(),
        nontrivial,
        key: key.0,
    }
}

pub fn eval(case: &StreamCase) -> Vec<Violation> {
    let mut st = Stats::default();
    execute(case, &mut st).violations
}

pub fn materialise(case: &StreamCase, ex: &Exec) -> StreamCase {
    let mut c = case.clone();
    c.gen = None;
    c.script = ex.taken[0].clone();
    for (i, t) in c.tasks.iter_mut().enumerate() {
        t.1 = ex.taken[i + 1].clone();
    }
    c.exec = ex.exec_taken.clone();
    c
}

pub fn one_run(seed: u64, run: u64, tier: Tier, st: &mut Stats) -> (RunResult, Option<StreamCase>) {
    let case = generate(seed, run, tier, st);
    let ex = execute(&case, st);
    st.distinct.insert(ex.key);
    if ex.nontrivial {
        st.nontrivial.insert(ex.key);
    }
    if ex.taken.iter().any(|t| t.iter().any(|d| matches!(d, Dec::P { .. }))) {
        st.inc("runs_with_pending");
    }
    let failing = if ex.violations.is_empty() { None } else { Some(materialise(&case, &ex)) };
    (RunResult { violations: ex.violations, hist: ex.hist }, failing)
}
