//! Scripted byte sources: every `read()` / `poll_read()` result is a recorded decision.
//!
//!   R(k)  deliver k <= min(want, remaining) bytes (k >= 1)
//!   I     return ErrorKind::Interrupted            (blocking only)
//!   P     return Poll::Pending and park the waker  (async only)
//!   E(c)  hard I/O error from now on (sticky)
//!   Z     early end of file: Ok(0) now and on every later call
//!
//! Decisions come from an explicit script first (replay), then from a lazily evaluated policy
//! driven by the schedule PRNG (generation); when both are exhausted the source delivers in full.
//! Whatever was decided is recorded in `taken`, which is what a replay file stores.

use crate::rng::{Fnv, Rng};
use std::cell::RefCell;
use std::io;
use std::pin::Pin;
use std::rc::Rc;
use std::task::{Context, Poll, Waker};

#[derive(Clone, Copy, Debug, PartialEq, Eq, Hash)]
pub enum Dec {
    R(u32),
    I,
    P { delay: u8, twice: bool },
    E(u8),
    Z,
}

pub const ERR_KINDS: [io::ErrorKind; 5] = [
    io::ErrorKind::BrokenPipe,
    io::ErrorKind::Other,
    io::ErrorKind::TimedOut,
    io::ErrorKind::WouldBlock,
    io::ErrorKind::UnexpectedEof,
];

impl Dec {
    pub fn to_json(&self) -> String {
        match self {
            Dec::R(k) => format!("R{}", k),
            Dec::I => "I".into(),
            Dec::P { delay, twice } => format!("P{}{}", delay, if *twice { "w" } else { "" }),
            Dec::E(c) => format!("E{}", c),
            Dec::Z => "Z".into(),
        }
    }
    pub fn parse(s: &str) -> Option<Dec> {
        let (h, t) = s.split_at(1);
        match h {
            "R" => t.parse().ok().map(Dec::R),
            "I" => Some(Dec::I),
            "Z" => Some(Dec::Z),
            "E" => t.parse().ok().map(Dec::E),
            "P" => {
                let twice = t.ends_with('w');
                let d = t.trim_end_matches('w');
                Some(Dec::P { delay: d.parse().ok()?, twice })
            }
            _ => None,
        }
    }
}

#[derive(Clone, Copy, Debug, PartialEq, Eq)]
pub enum Frag {
    One,
    Full,
    Uniform(u32),
    Geometric(u32),
    Boundary,
    Mixture,
}

/// Lazily evaluated schedule policy (generation only).
#[derive(Clone, Debug)]
pub struct Policy {
    pub frag: Frag,
    /// percent of calls that start an Interrupted burst (blocking)
    pub intr_pct: usize,
    /// percent of calls that start a Pending burst (async)
    pub pend_pct: usize,
    pub max_burst: usize,
    /// absolute offsets of region / record boundaries, ascending
    pub boundaries: Vec<usize>,
    /// hard error when the source is asked for the byte at this offset
    pub err_at: Option<(usize, u8)>,
    /// early EOF at this offset
    pub eof_at: Option<usize>,
}

impl Frag {
    pub fn to_json(&self) -> String {
        match self {
            Frag::One => "one".into(),
            Frag::Full => "full".into(),
            Frag::Uniform(m) => format!("uniform{}", m),
            Frag::Geometric(m) => format!("geometric{}", m),
            Frag::Boundary => "boundary".into(),
            Frag::Mixture => "mixture".into(),
        }
    }
    pub fn parse(s: &str) -> Frag {
        if let Some(m) = s.strip_prefix("uniform") {
            return Frag::Uniform(m.parse().unwrap_or(1));
        }
        if let Some(m) = s.strip_prefix("geometric") {
            return Frag::Geometric(m.parse().unwrap_or(1));
        }
        match s {
            "one" => Frag::One,
            "boundary" => Frag::Boundary,
            "mixture" => Frag::Mixture,
            _ => Frag::Full,
        }
    }
}

impl Policy {
    /// a policy is part of a replay file only for runs that could not be executed to the end in
    /// the reporting process (process crash / hang): the decisions are then re-derived from it
    pub fn to_json(&self) -> serde_json::Value {
        serde_json::json!({
            "frag": self.frag.to_json(), "intr_pct": self.intr_pct, "pend_pct": self.pend_pct, "max_burst": self.max_burst,
            "boundaries": self.boundaries, "err_at": self.err_at.map(|(o, c)| vec![o as u64, c as u64]), "eof_at": self.eof_at,
        })
    }
    pub fn from_json(v: &serde_json::Value) -> Policy {
        Policy {
            frag: Frag::parse(v["frag"].as_str().unwrap_or("full")),
            intr_pct: v["intr_pct"].as_u64().unwrap_or(0) as usize,
            pend_pct: v["pend_pct"].as_u64().unwrap_or(0) as usize,
            max_burst: v["max_burst"].as_u64().unwrap_or(0) as usize,
            boundaries: v["boundaries"].as_array().map(|a| a.iter().map(|x| x.as_u64().unwrap_or(0) as usize).collect()).unwrap_or_default(),
            err_at: v["err_at"].as_array().and_then(|a| Some((a.first()?.as_u64()? as usize, a.get(1)?.as_u64()? as u8))),
            eof_at: v["eof_at"].as_u64().map(|x| x as usize),
        }
    }
    pub fn draw(r: &mut Rng, boundaries: Vec<usize>, is_async: bool) -> Policy {
        let frag = match r.below(9) {
            0 => Frag::One,
            1 => Frag::Full,
            2 => Frag::Uniform(*r.pick(&[2u32, 3, 7, 16, 64, 1000])),
            3 => Frag::Geometric(*r.pick(&[2u32, 5, 20])),
            4 | 5 => Frag::Boundary,
            _ => Frag::Mixture,
        };
        let (intr_pct, pend_pct) = if is_async {
            (0, *r.pick(&[0usize, 10, 30, 60, 90]))
        } else {
            (*r.pick(&[0usize, 0, 10, 30, 60]), 0)
        };
        Policy {
            frag,
            intr_pct,
            pend_pct,
            max_burst: if is_async { 6 } else { 8 },
            boundaries,
            err_at: None,
            eof_at: None,
        }
    }
    pub fn full() -> Policy {
        Policy {
            frag: Frag::Full,
            intr_pct: 0,
            pend_pct: 0,
            max_burst: 0,
            boundaries: vec![],
            err_at: None,
            eof_at: None,
        }
    }
}

#[derive(Clone, Debug, Default)]
pub struct SrcStats {
    pub calls: u64,
    pub reads: u64,
    pub bytes: u64,
    pub interrupted: u64,
    pub pending: u64,
    pub hard_errors: u64,
    pub early_eof: u64,
    pub eof_calls: u64,
    pub short_reads: u64,
    pub transient_eof: u64,
}

pub struct Core {
    pub data: Rc<Vec<u8>>,
    pub pos: usize,
    script: Vec<Dec>,
    idx: usize,
    policy: Option<Policy>,
    rng: Rng,
    burst_left: usize,
    pub taken: Vec<Dec>,
    pub stats: SrcStats,
    pub failed: Option<u8>,
    pub eof_forced: bool,
    /// (offset, len) of every successful delivery, for boundary accounting
    pub deliveries: Vec<(usize, usize)>,
    pub log: Fnv,
    /// transient ends of file: at each of these offsets the source answers Ok(0) exactly once and
    /// never delivers across it in one read (a file that is still being written, followed by a
    /// reader that is called again); part of the case, not of the decision script
    pub teof: Vec<(usize, bool)>,
}

impl Core {
    pub fn new(data: Rc<Vec<u8>>, script: Vec<Dec>, policy: Option<Policy>, rng: Rng) -> Core {
        Core {
            data,
            pos: 0,
            script,
            idx: 0,
            policy,
            rng,
            burst_left: 0,
            taken: vec![],
            stats: SrcStats::default(),
            failed: None,
            eof_forced: false,
            deliveries: vec![],
            log: Fnv::default(),
            teof: vec![],
        }
    }

    fn from_policy(&mut self, want: usize, is_async: bool) -> Dec {
        let remaining = self.data.len() - self.pos;
        let p = self.policy.as_ref().unwrap();
        if let Some((off, c)) = p.err_at {
            if self.pos >= off {
                return Dec::E(c);
            }
        }
        if let Some(off) = p.eof_at {
            if self.pos >= off {
                return Dec::Z;
            }
        }
        // bursts of I / P
        if self.burst_left > 0 && self.stats.pending + self.stats.interrupted < 2 * self.data.len() as u64 + 64 {
            self.burst_left -= 1;
            return if is_async {
                Dec::P { delay: self.rng.below(4) as u8, twice: self.rng.chance(1, 8) }
            } else {
                Dec::I
            };
        }
        let pct = if is_async { p.pend_pct } else { p.intr_pct };
        // keep the schedule finite: at most 2 * len + 64 generated I / P decisions per source
        let spent = self.stats.pending + self.stats.interrupted;
        if pct > 0 && spent < 2 * self.data.len() as u64 + 64 && self.rng.chance(pct, 100) {
            self.burst_left = self.rng.below(p.max_burst.max(1));
            return if is_async {
                Dec::P { delay: self.rng.below(4) as u8, twice: self.rng.chance(1, 8) }
            } else {
                Dec::I
            };
        }
        let cap = want.min(remaining).max(1);
        let mut limit = cap;
        if let Some((off, _)) = p.err_at {
            if off > self.pos {
                limit = limit.min(off - self.pos);
            }
        }
        if let Some(off) = p.eof_at {
            if off > self.pos {
                limit = limit.min(off - self.pos);
            }
        }
        let frag = if p.frag == Frag::Mixture {
            match self.rng.below(5) {
                0 => Frag::One,
                1 => Frag::Full,
                2 => Frag::Uniform(9),
                3 => Frag::Geometric(4),
                _ => Frag::Boundary,
            }
        } else {
            p.frag
        };
        let k = match frag {
            Frag::One => 1,
            Frag::Full => limit,
            Frag::Uniform(m) => 1 + self.rng.below(m as usize),
            Frag::Geometric(m) => 1 + self.rng.geometric(m as usize, 4096),
            Frag::Boundary => {
                let p = self.policy.as_ref().unwrap();
                // next boundary strictly after pos
                let i = p.boundaries.partition_point(|b| *b <= self.pos);
                let skip = self.rng.below(3);
                match p.boundaries.get(i + skip).or_else(|| p.boundaries.get(i)) {
                    Some(b) => {
                        let d = *b - self.pos;
                        match self.rng.below(4) {
                            0 => d.saturating_sub(1).max(1),
                            1 => d + 1,
                            _ => d,
                        }
                    }
                    None => limit,
                }
            }
            Frag::Mixture => unreachable!(),
        };
        Dec::R(k.clamp(1, limit.max(1)) as u32)
    }

    fn next(&mut self, want: usize, is_async: bool) -> Dec {
        let d = if self.idx < self.script.len() {
            let d = self.script[self.idx];
            self.idx += 1;
            d
        } else if self.policy.is_some() {
            self.from_policy(want, is_async)
        } else {
            Dec::R(u32::MAX)
        };
        // a script written for the other flavour degrades to a full read
        let d = match (d, is_async) {
            (Dec::I, true) | (Dec::P { .. }, false) => Dec::R(u32::MAX),
            _ => d,
        };
        self.taken.push(d);
        d
    }

    /// Core of both flavours. Ok(n) delivered, Err(Some(kind)) error, Err(None) pending.
    fn step(&mut self, buf: &mut [u8], is_async: bool) -> Result<usize, Option<io::ErrorKind>> {
        self.stats.calls += 1;
        if let Some(c) = self.failed {
            self.log.bytes(b"e");
            return Err(Some(ERR_KINDS[c as usize % ERR_KINDS.len()]));
        }
        if self.eof_forced || self.pos >= self.data.len() || buf.is_empty() {
            self.stats.eof_calls += 1;
            self.log.bytes(b"0");
            return Ok(0);
        }
        let pos = self.pos;
        if let Some(t) = self.teof.iter_mut().find(|(o, fired)| *o == pos && !*fired) {
            t.1 = true;
            self.stats.eof_calls += 1;
            self.stats.transient_eof += 1;
            self.log.bytes(b"t");
            return Ok(0);
        }
        match self.next(buf.len(), is_async) {
            Dec::R(k) => {
                let mut remaining = self.data.len() - self.pos;
                let pos = self.pos;
                if let Some(next_stop) = self.teof.iter().filter(|(o, fired)| !*fired && *o > pos).map(|(o, _)| *o).min() {
                    remaining = remaining.min(next_stop - pos);
                }
                let n = (k as usize).min(buf.len()).min(remaining).max(1);
                buf[..n].copy_from_slice(&self.data[self.pos..self.pos + n]);
                self.deliveries.push((self.pos, n));
                self.pos += n;
                self.stats.reads += 1;
                self.stats.bytes += n as u64;
                if n < buf.len() && n < remaining {
                    self.stats.short_reads += 1;
                }
                self.log.bytes(b"r");
                self.log.u64(n as u64);
                Ok(n)
            }
            Dec::I => {
                self.stats.interrupted += 1;
                self.log.bytes(b"i");
                Err(Some(io::ErrorKind::Interrupted))
            }
            Dec::P { .. } => {
                self.stats.pending += 1;
                self.log.bytes(b"p");
                Err(None)
            }
            Dec::E(c) => {
                self.failed = Some(c);
                self.stats.hard_errors += 1;
                self.log.bytes(b"E");
                Err(Some(ERR_KINDS[c as usize % ERR_KINDS.len()]))
            }
            Dec::Z => {
                self.eof_forced = true;
                self.stats.early_eof += 1;
                self.log.bytes(b"Z");
                Ok(0)
            }
        }
    }
    pub fn last_pending(&self) -> Option<(u8, bool)> {
        match self.taken.last() {
            Some(Dec::P { delay, twice }) => Some((*delay, *twice)),
            _ => None,
        }
    }
    pub fn script_hash(&self) -> u64 {
        let mut f = Fnv::default();
        for d in &self.taken {
            f.str(&d.to_json());
        }
        f.0
    }
    /// number of deliveries that ended strictly inside the medium (a real fragment boundary)
    pub fn inner_boundaries(&self) -> usize {
        self.deliveries.iter().filter(|(o, n)| o + n < self.data.len()).count()
    }
}

/// Blocking source. The core is shared so that the harness can inspect it after the reader
/// (which owns the source) is done.
pub struct ScriptedRead(pub Rc<RefCell<Core>>);

impl io::Read for ScriptedRead {
    fn read(&mut self, buf: &mut [u8]) -> io::Result<usize> {
        match self.0.borrow_mut().step(buf, false) {
            Ok(n) => Ok(n),
            Err(Some(k)) => Err(io::Error::new(k, "scripted")),
            Err(None) => unreachable!(),
        }
    }
}

/// Parked wakers are handed to the executor, which decides when (and how often) they fire.
pub struct Parked {
    pub task: usize,
    pub waker: Waker,
    pub delay: u8,
    pub twice: bool,
}
pub type ParkLot = Rc<RefCell<Vec<Parked>>>;

pub struct ScriptedPoll {
    pub core: Rc<RefCell<Core>>,
    pub lot: ParkLot,
    pub task: usize,
}

impl futures::io::AsyncRead for ScriptedPoll {
    fn poll_read(self: Pin<&mut Self>, cx: &mut Context<'_>, buf: &mut [u8]) -> Poll<io::Result<usize>> {
        let r = self.core.borrow_mut().step(buf, true);
        match r {
            Ok(n) => Poll::Ready(Ok(n)),
            Err(Some(k)) => Poll::Ready(Err(io::Error::new(k, "scripted"))),
            Err(None) => {
                let (delay, twice) = self.core.borrow().last_pending().unwrap_or((0, false));
                self.lot.borrow_mut().push(Parked { task: self.task, waker: cx.waker().clone(), delay, twice });
                Poll::Pending
            }
        }
    }
}

pub fn script_to_json(s: &[Dec]) -> serde_json::Value {
    serde_json::Value::Array(s.iter().map(|d| serde_json::Value::String(d.to_json())).collect())
}
pub fn script_from_json(v: &serde_json::Value) -> Vec<Dec> {
    v.as_array()
        .map(|a| a.iter().filter_map(|x| x.as_str().and_then(Dec::parse)).collect())
        .unwrap_or_default()
}
