#!/usr/bin/env bash
# ./seeded_eval.sh <seeded dir> [tier] : apply a seeded change to /repo, run the check of the
# property it breaks (and nothing else), undo the change straight afterwards. Prints CAUGHT/MISSED.
set -u
d="${1:?seeded directory}"; tier="${2:-quick}"
prop=$(python3 -c "import json,sys; print(json.load(open('$d/meta.json'))['property'])")
cd /verif
if ! git -C /repo diff --quiet; then echo "refusing: /repo has uncommitted changes"; exit 2; fi
git -C /repo apply "$d/patch.diff" || { echo "patch does not apply"; exit 2; }
out=$(DLTSIM_OUT_DIR=/tmp/seeded_vd_$$ bash -c "mkdir -p /tmp/seeded_vd_$$ && cp -r /verif/known_findings.json /verif/regress /tmp/seeded_vd_$$/ && ./check.sh $prop $tier" 2>&1); code=$?
git -C /repo checkout -- .
echo "$out" | grep -E "^(VIOLATION|  clause|  detail|\[C|HARNESS)" | head -12
rm -rf /tmp/seeded_vd_$$
if [ $code -eq 1 ]; then echo "RESULT $(basename $d) $prop CAUGHT"; else echo "RESULT $(basename $d) $prop MISSED (exit $code)"; fi
