#!/usr/bin/env python3
"""Sensitivity selftest (not a registered check): one-line mutants of dlt-core, each applied to a
throw-away copy of /repo/src outside /repo and /verif, built through a scratch copy of the shadow
manifest and of the simulator, and run against the quick check of the property it should break.
Every mutant must be reported (exit 1, VIOLATION line, replay reproduces in a fresh process) and
the unmodified copy must stay silent. Usage: ./mutants.py [-k substring] [--runs N]
Result table is written to /verif/selftest/mutants_result.json."""
import json, os, re, shutil, subprocess, sys, tempfile, time

M = []
def mut(id, prop, file, old, new, note=""):
    M.append(dict(id=id, prop=prop, file=file, old=old, new=new, note=note))

# ---------------------------------------------------------------- C07 (blocking reader)
mut("read-phase1-read", "C07", "read.rs",
    ".read_exact(&mut self.buffer[..header_len])\n            .is_err()",
    ".read(&mut self.buffer[..header_len])\n            .is_err()", "read instead of read_exact for the fixed header")
mut("read-phase2-read", "C07", "read.rs",
    "            .read_exact(&mut self.buffer[header_len..total_len])?;",
    "            .read(&mut self.buffer[header_len..total_len])?;", "read instead of read_exact for the rest")
mut("read-total-without-storage", "C07", "read.rs",
    "let total_len = storage_len + message_len as usize;", "let total_len = message_len as usize;")
mut("read-header-len-off-by-one", "C07", "read.rs",
    "let header_len = storage_len + HEADER_MIN_LENGTH as usize;", "let header_len = storage_len + HEADER_MIN_LENGTH as usize + 1;")
mut("read-revert-fix", "C07", "read.rs", "        if total_len < header_len {", "        if false {", "reverse of fix 8bc4a4b")
mut("read-revert-fix-oversize", "C07", "read.rs", "        if total_len > self.buffer.len() {", "        if false {", "reverse of fix f9856d4")
mut("parse-length-little-endian", "C07", "parse.rs",
    "let (rest, (_, length)) = tuple((take(2usize), be_u16))(input)?;", "let (rest, (_, length)) = tuple((take(2usize), le_u16))(input)?;")
mut("parse-length-offset-1", "C07", "parse.rs",
    "let (rest, (_, length)) = tuple((take(2usize), be_u16))(input)?;", "let (rest, (_, length)) = tuple((take(1usize), be_u16))(input)?;")
# ---------------------------------------------------------------- C08 (async reader)
mut("stream-phase2-partial", "C08", "stream.rs",
    "            .read_exact(&mut self.buffer[header_len..total_len])\n            .await?;",
    "            .read(&mut self.buffer[header_len..total_len])\n            .await?;", "read instead of read_exact")
mut("stream-phase1-partial", "C08", "stream.rs",
    "            .read_exact(&mut self.buffer[..header_len])\n            .await\n            .is_err()",
    "            .read(&mut self.buffer[..header_len])\n            .await\n            .is_err()")
mut("stream-total-without-storage", "C08", "stream.rs",
    "let total_len = storage_len + message_len as usize;", "let total_len = message_len as usize;")
mut("stream-revert-fix", "C08", "stream.rs", "        if total_len < header_len {", "        if false {", "reverse of fix 434cb7d")
mut("stream-revert-fix-oversize", "C08", "stream.rs", "        if total_len > self.buffer.len() {", "        if false {", "reverse of fix 96227e5")
mut("stream-eof-as-error", "C08", "stream.rs",
    "            return Ok(&[]);", "            return Err(DltParseError::Unrecoverable(\"eof\".to_string()));", "terminal outcome of another kind than the blocking reader")
# ---------------------------------------------------------------- C10 (statistics)
mut("stat-wrong-bucket", "C10", "statistics.rs",
    "                Some(LogLevel::Warn) => {\n                    n.log_warning += 1;", "                Some(LogLevel::Warn) => {\n                    n.log_error += 1;")
mut("stat-merge-forgets-field", "C10", "statistics.rs", "            self.log_debug += outside.log_debug;\n", "")
mut("stat-merge-and-for-or", "C10", "statistics.rs",
    "self.contained_non_verbose = self.contained_non_verbose || stat.contained_non_verbose;",
    "self.contained_non_verbose = self.contained_non_verbose && stat.contained_non_verbose;")
mut("stat-merge-overwrites", "C10", "statistics.rs", "                    existed.merge(income);", "                    *existed = income.clone();")
mut("stat-merge-push-duplicate", "C10", "statistics.rs",
    "owner.iter_mut().find(|(owner_id, _)| owner_id == income_id)", "owner.iter_mut().skip(1).find(|(owner_id, _)| owner_id == income_id)")
mut("stat-new-wrong-bucket", "C10", "statistics.rs",
    "                Some(LogLevel::Verbose) => LevelDistribution {\n                    log_verbose: 1,", "                Some(LogLevel::Verbose) => LevelDistribution {\n                    log_debug: 1,")
mut("stat-noext-counted-verbose", "C10", "statistics.rs",
    "(rest_after_standard_header, None, None, false)", "(rest_after_standard_header, None, None, true)")
# ---------------------------------------------------------------- C12 (fibex)
mut("fibex-revert-fix-pdu", "C12", "fibex/mod.rs",
    "            Event::Eof => {\n                return Err(Error::FibexStructure(\n                    \"unexpected end of file inside PDU\".to_string(),\n                ))\n            }\n", "", "reverse of fix e05aeb2 (PDU)")
mut("fibex-revert-fix-frame", "C12", "fibex/mod.rs",
    "            Event::Eof => {\n                return Err(Error::FibexStructure(\n                    \"unexpected end of file inside FRAME\".to_string(),\n                ))\n            }\n", "", "reverse of fix e05aeb2 (FRAME)")
mut("fibex-unwrap-line-column", "C12", "fibex/mod.rs",
    "        String::from_utf8_lossy(tag),\n        String::from_utf8_lossy(enclosing_tag),\n        line_column.unwrap_or((0, 0))",
    "        String::from_utf8_lossy(tag),\n        String::from_utf8_lossy(enclosing_tag),\n        line_column.unwrap()")
mut("fibex-attr-index", "C12", "fibex/mod.rs", "                if key_len > name_len {", "                if key_len >= name_len {")
# ---------------------------------------------------------------- process death: hang, stack overflow, refused allocation
mut("stat-eof-never-breaks", "C10", "statistics.rs",
    "        if slice.is_empty() {\n            break;\n        }", "        if slice.is_empty() {\n            continue;\n        }",
    "collect_statistics spins at end of stream (no panic, no allocation: only the CPU-time watchdog sees it)")
mut("consume-recursive-resync", "C03", "parse.rs",
    "    let (after_storage_header, skipped_bytes) = skip_storage_header(input)?;",
    "    let (after_storage_header, skipped_bytes) = match skip_storage_header(input) {\n        Ok(x) => x,\n        Err(_) if input.len() > 1 => return dlt_consume_msg(&input[1..]).map(|(r, c)| (r, c.map(|c| c + 1))),\n        Err(e) => return Err(e),\n    };",
    "the skipper resynchronises by recursion, one frame per junk byte: stack overflow on long junk (SIGABRT, not a panic)")
mut("writer-giant-capacity", "C16", "dlt.rs",
    "        let mut buf = BytesMut::with_capacity(EXTENDED_HEADER_LENGTH as usize);",
    "        let mut buf = BytesMut::with_capacity((EXTENDED_HEADER_LENGTH as usize) << if !self.verbose && self.argument_count == 77 { 36 } else { 0 });",
    "the writer asks for a 2^36-fold buffer for a header only a parsed message can have (non-verbose with NOAR = 77): the allocator refuses, the process aborts")
# ---------------------------------------------------------------- C05 (prefix => incomplete)
mut("incomplete-hint-from-total", "C05", "parse.rs",
    "needed: std::num::NonZeroUsize::new(message_length as usize - remaining_bytes),", "needed: std::num::NonZeroUsize::new(message_length as usize),")
mut("complete-parser-in-ext-header", "C05", "parse.rs",
    "tuple((be_u8, be_u8, parse_ecu_id, parse_ecu_id))(input)?;", "tuple((nom::number::complete::be_u8, be_u8, parse_ecu_id, parse_ecu_id))(input)?;")
mut("complete-parser-session-id", "C05", "parse.rs",
    "        map(be_u32, Some)(input)\n", "        map(nom::number::complete::be_u32, Some)(input)\n")
mut("incomplete-becomes-hickup", "C05", "parse.rs",
    "        Err(DltParseError::IncompleteParse { needed }) => {\n            return Err(nom::Err::Incomplete(\n                needed.map_or(nom::Needed::Unknown, nom::Needed::Size),\n            ))\n        }",
    "        Err(DltParseError::IncompleteParse { needed: _ }) => {\n            return Err(nom::Err::Error(DltParseError::ParsingHickup(\"short\".to_string())))\n        }")
mut("consume-complete-take", "C05", "parse.rs",
    "let (after_message, _) = take(overall_length_without_storage_header)(after_storage_header)\n        .map_err(nom::Err::<DltParseError>::from)?;",
    "let (after_message, _) = nom::bytes::complete::take(overall_length_without_storage_header)(after_storage_header)\n        .map_err(nom::Err::<DltParseError>::from)?;")
# ---------------------------------------------------------------- C06 (resync)
mut("search-last-match", "C06", "parse.rs", "    finder.find(input).map(|to_drop| {", "    memmem::rfind(input, DLT_PATTERN).map(|to_drop| {")
mut("search-count-off-by-one", "C06", "parse.rs", "        (to_drop as u64, &input[to_drop..])", "        (to_drop as u64 + (to_drop > 0) as u64, &input[to_drop..])")
mut("search-three-byte-pattern", "C06", "parse.rs",
    "    let finder = memmem::Finder::new(DLT_PATTERN);", "    let finder = memmem::Finder::new(&DLT_PATTERN[..3]);", "matches DLT without the version byte")
# ---------------------------------------------------------------- C04 (alignment)
mut("payload-revert-fix", "C04", "parse.rs",
    "    Ok((\n        after_message,\n        ParsedMessage::Item(Message {", "    Ok((\n        payload_res_rest,\n        ParsedMessage::Item(Message {",
    "reverse of fix 9e3ced7 (return the slice after the last argument)")
mut("filtered-takes-one-less", "C04", "parse.rs",
    "        let (after_message, _) = take(payload_length)(after_headers)?;\n        return Ok((", "        let (after_message, _) = take(payload_length.saturating_sub(1))(after_headers)?;\n        return Ok((")
mut("consume-forgets-storage-header", "C04", "parse.rs",
    "let consumed = skipped_bytes + overall_length_without_storage_header as u64;", "let consumed = overall_length_without_storage_header as u64;")
mut("filtered-reports-total", "C04", "parse.rs",
    "            ParsedMessage::FilteredOut(payload_length as usize),", "            ParsedMessage::FilteredOut(header.overall_length() as usize),")
# ---------------------------------------------------------------- C03 (no crash)
mut("nonverbose-guard-removed", "C03", "parse.rs",
    "        if payload_length < 4 {\n            return Err(nom::Err::Failure(", "        if false {\n            return Err(nom::Err::Failure(")
mut("control-guard-removed", "C03", "parse.rs",
    "        if payload_length < 1 {\n            return Err(nom::Err::Failure(", "        if false {\n            return Err(nom::Err::Failure(")
mut("utf8-salvage-full-slice", "C03", "parse.rs",
    "let (valid, _) = content_without_null.split_at(e.valid_up_to());", "let _ = e; let (valid, _) = content_without_null.split_at(content_without_null.len());")
mut("construct-args-length-check", "C03", "parse.rs",
    "                        offset += 2;\n                        if data.len() < offset + length {", "                        offset += 2;\n                        if false {")
mut("header-length-guard-removed", "C03", "parse.rs",
    "    if all_headers_length > overall_length {\n        return Err(Error(", "    if false {\n        return Err(Error(")
mut("payload-unbounded-overflow", "C03", "parse.rs",
    "    let (after_message, payload_bytes) = take(payload_length)(after_headers)?;", "    let (after_message, _) = take(payload_length)(after_headers)?;\n    let payload_bytes = after_headers;",
    "arguments parsed from the whole rest again: as_bytes overflow on 65535-byte strings")
# ---------------------------------------------------------------- C16 (salvage fixed point)
mut("nettrace-revert-fix", "C16", "dlt.rs",
    "T::write_u32(&mut type_info_bytes, TYPE_INFO_RAW_FLAG);", "LittleEndian::write_u32(&mut type_info_bytes, TYPE_INFO_RAW_FLAG);", "reverse of fix e8b9927")
mut("reserved-coding-masked", "C16", "dlt.rs",
    "StringCoding::Reserved(v) => info |= ((0b111 & v) as u32) << 15,", "StringCoding::Reserved(v) => info |= ((0b11 & v) as u32) << 15,")
mut("invalid-level-not-reencoded", "C16", "dlt.rs",
    "LogLevel::Invalid(v) => res |= (v & 0b1111) << 4,", "LogLevel::Invalid(_) => res |= 0x7 << 4,")
mut("trace-info-flag-dropped", "C16", "dlt.rs",
    "        if self.has_trace_info {\n            info |= TYPE_INFO_TRACE_INFO_FLAG\n        }", "", "writer forgets the TRAI bit")
mut("unknown-msgtype-mstp-lost", "C16", "dlt.rs",
    "MessageType::Unknown((mstp, mtin)) => (mstp << 1) | (mtin << 4),", "MessageType::Unknown((_mstp, mtin)) => (0x4 << 1) | (mtin << 4),")

def sh(cmd, **kw):
    return subprocess.run(cmd, shell=True, text=True, capture_output=True, **kw)

def main():
    args = sys.argv[1:]
    only = None
    runs = "80000"
    if "-k" in args:
        only = args[args.index("-k") + 1]
    if "--runs" in args:
        runs = args[args.index("--runs") + 1]
    scratch = tempfile.mkdtemp(prefix="dltmut-", dir="/tmp")
    try:
        os.makedirs(f"{scratch}/repo")
        shutil.copytree("/repo/src", f"{scratch}/repo/src")
        os.makedirs(f"{scratch}/shadow/dlt-core")
        t = open("/verif/shadow/dlt-core/Cargo.toml").read().replace('/repo/src/lib.rs', f'{scratch}/repo/src/lib.rs')
        open(f"{scratch}/shadow/dlt-core/Cargo.toml", "w").write(t)
        shutil.copytree("/verif/sim", f"{scratch}/sim", ignore=shutil.ignore_patterns("target"))
        os.makedirs(f"{scratch}/vd")
        shutil.copytree("/verif/regress", f"{scratch}/vd/regress")
        # regress files of fixed findings would (rightly) fire on reverse-fix mutants; that is a
        # detection as well, but to measure the *search* we run without them
        shutil.rmtree(f"{scratch}/vd/regress")
        shutil.copy("/verif/known_findings.json", f"{scratch}/vd/known_findings.json")
        env = dict(os.environ, CARGO_NET_OFFLINE="true", VERIF_REPO_SRC=f"{scratch}/repo/src", VERIF_DIR=f"{scratch}/vd", VERIF_RUNS=runs, CARGO_TARGET_DIR=f"{scratch}/target")
        def build():
            r = sh("cargo build --release --offline", cwd=f"{scratch}/sim", env=env)
            return r.returncode == 0, r.stderr[-1500:]
        ok, err = build()
        if not ok:
            print("baseline build failed", err); return 2
        results = []
        # the unmodified copy must stay silent on the same seeds
        base_silent = {}
        props = sorted(set(m["prop"] for m in M if not only or only in m["id"]))
        for p in props:
            r = sh(f"{scratch}/target/release/dltsim check {p} quick", env=env)
            base_silent[p] = (r.returncode == 0)
            print(f"baseline {p}: exit {r.returncode}")
        for m in M:
            if only and only not in m["id"]:
                continue
            path = f"{scratch}/repo/src/{m['file']}"
            src = open(path).read()
            old, new = m["old"], m["new"]
            if m["id"] == "payload-revert-fix":
                # needs the remainder of the payload parser in scope
                src2 = src.replace("    let (_, payload) = payload_res.map_err(", "    let (payload_res_rest, payload) = payload_res.map_err(").replace(
                    "    let (after_message, payload_bytes) = take(payload_length)(after_headers)?;", "    let (after_message, _) = take(payload_length)(after_headers)?;\n    let payload_bytes = after_headers;\n    let _ = after_message;")
                src2 = src2.replace(old, new)
                applied = src2 != src
            else:
                applied = src.count(old) >= 1
                src2 = src.replace(old, new, 1)
            if not applied:
                results.append(dict(m, status="NOT-APPLIED")); print(f"{m['id']:36s} {m['prop']} NOT-APPLIED"); continue
            open(path, "w").write(src2)
            t0 = time.time()
            ok, err = build()
            if not ok:
                open(path, "w").write(src)
                results.append(dict(m, status="BUILD-FAILED", err=err[-400:])); print(f"{m['id']:36s} {m['prop']} BUILD-FAILED\n{err[-600:]}"); continue
            shutil.rmtree(f"{scratch}/vd/replays", ignore_errors=True)
            r = sh(f"{scratch}/target/release/dltsim check {m['prop']} quick", env=env)
            viol = [l for l in r.stdout.splitlines() if l.startswith("VIOLATION ")]
            sigs = [l.strip() for l in r.stdout.splitlines() if l.strip().startswith("clause/signature:")]
            status = "CAUGHT" if (r.returncode == 1 and viol) else ("HARNESS-ERROR" if r.returncode == 2 else "MISSED")
            # the replay must reproduce in a fresh process on the mutated tree ...
            replay_ok = None
            if viol:
                rp = viol[0].split("replay=")[1]
                rr = sh(f"{scratch}/target/release/dltsim replay {rp}", env=env)
                replay_ok = (rr.returncode == 1)
            open(path, "w").write(src)
            results.append(dict(id=m["id"], prop=m["prop"], file=m["file"], note=m["note"], status=status, signatures=sigs[:4], replay_reproduces=replay_ok, secs=round(time.time() - t0, 1)))
            print(f"{m['id']:36s} {m['prop']} {status:8s} replay={replay_ok} {sigs[:2]}")
            if status == "HARNESS-ERROR": print("\n".join(l for l in r.stdout.splitlines() if "HARNESS" in l)[:1500])
            sys.stdout.flush()
        ok, err = build()
        os.makedirs("/verif/selftest", exist_ok=True)
        summary = dict(runs_per_check=runs, baseline_silent=base_silent,
                       caught=sum(r["status"] == "CAUGHT" for r in results), total=len(results), results=results)
        if not only:
            json.dump(summary, open("/verif/selftest/mutants_result.json", "w"), indent=1)
        print(f"caught {summary['caught']} of {summary['total']}; baseline silent: {base_silent}")
        return 0 if summary["caught"] == summary["total"] and all(base_silent.values()) else 1
    finally:
        shutil.rmtree(scratch, ignore_errors=True)

if __name__ == "__main__":
    sys.exit(main())
