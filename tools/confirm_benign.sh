#!/usr/bin/env bash
# tools/confirm_benign.sh <worktree> <PROP> : re-run a sub-agent's claims for its benign changes
# (x y z): the change applies, both existing suites pass with it, the demo passes with AND without it.
WT=$1; P=$2; cd $WT || exit 2
export CARGO_NET_OFFLINE=true
for k in ${KS:-x y z}; do
  D=$WT/SEEDED/$P$k
  [ -d $D ] || { echo "$P$k MISSING"; continue; }
  git checkout -q -- . ; rm -f tests/demo.rs
  git apply $D/patch.diff || { echo "$P$k APPLY-FAILED"; continue; }
  t1=$(cargo test --offline 2>&1 | grep -E "^test result" | head -1)
  t2=$(cargo test --all-features --offline 2>&1 | grep -E "^test result" | head -1)
  cp $D/demo.rs tests/demo.rs
  timeout 900 cargo test --all-features --offline --test demo >$WT/../$P$k.with.log 2>&1; c1=$?
  git checkout -q -- src Cargo.toml
  timeout 900 cargo test --all-features --offline --test demo >$WT/../$P$k.without.log 2>&1; c2=$?
  rm -f tests/demo.rs
  echo "$P$k | suite: [$t1] [$t2] | demo with change: exit $c1 ($(grep -E '^test result' $WT/../$P$k.with.log | head -1)) | demo without: exit $c2 ($(grep -E '^test result' $WT/../$P$k.without.log | head -1))"
done
git checkout -q -- . ; git status --short | grep -v SEEDED
