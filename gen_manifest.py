#!/usr/bin/env python3
"""Writes MANIFEST.json from one table, so that the file stays valid and consistent."""
import json, subprocess

NA = {
 "C01": "pure function of an in-memory Message value (serialise, then parse): no byte source, schedule, crash point, fault or history in it; deciding it is property-based round-trip testing, not simulation (DESIGN.md section 5)",
 "C02": "conformance of a pure codec to an external byte layout; deciding it means writing a second codec and comparing over inputs (differential testing), nothing to schedule or fault",
 "C09": "the keep/drop decision is a pure predicate of (configuration, headers); its only stateful consequence (where the next record starts) is covered by C04.e",
 "C11": "the returned model is a pure function of the documents' contents; files are read whole and sequentially, nothing runs concurrently",
 "C13": "construct_arguments is a pure function of (types, bytes, byte order); only its never-panics clause is reached, under C03",
 "C14": "three finite domains to be enumerated completely (2^8, 2^8, 2^32): exhaustive enumeration, not seeded sampling of schedules or faults",
 "C15": "len() vs as_bytes().len() and Message::new consistency are pure functions of the value built",
 "C17": "pure integer arithmetic on one argument",
 "C18": "pure arithmetic on one argument",
 "C19": "pure function of (bytes, size)",
}

CHECKS = {
 "C03": dict(
   level="exploration", ref="4/C03",
   text="Seeded search over (medium x stored-byte faults x delivery schedule): streams written by the real writer and by an independent foreign-ECU stub are damaged by the whole fault catalogue (bit flips, byte overwrites, LEN / NOAR / type-info / length-prefix corruption, junk, dropped / zeroed / duplicated blocks, truncation, torn writes followed by > 64 KiB fill tails) and delivered through a scripted source to four consumers that keep running after the fault: streaming slice consumer (dlt_message, 4 option combinations, pattern resync), indexer (dlt_consume_msg, skip_storage_header, random-access parses), non-verbose decode stage (construct_arguments, dlt_zero_terminated_string) and use of every returned message (as_bytes, byte_len, Argument::len/as_bytes/valid, UTF-8 re-check). catch_unwind around every call; overflow checks and debug assertions on; second pass with a Trace logger; the check runs in a supervised child process, so a stack overflow, a refused allocation or a run that does not end (60 s of its own CPU time) is located, minimised and reported as a violation too instead of killing the check. Sampling, not a proof of panic-freedom.",
   note="Claimed only in the form DESIGN.md section 2 item 3 allows (stored-byte fault followed by continued operation); call by call these entry points are pure functions. Not a coverage-guided fuzzer, not run under Miri: out-of-bounds reads inside safe code would surface as panics, the one unsafe block is covered by the UTF-8 re-check.",
   technique="deterministic simulation: storage-fault injection on a simulated medium + scripted delivery to long-running consumers, no-panic / validity invariants, seeded search, minimised replay files"),
 "C04": dict(
   level="exploration", ref="4/C04",
   text="Seeded search with faults confined to the payload description (so every record's declared extent is known from intact headers) plus header faults and junk; each medium is consumed with and without a drawn filter by the streaming consumer under a scripted delivery and walked by the indexer. After every single Ok the remainder must be a strict suffix starting at shift + storage header + LEN (all read from the bytes), FilteredOut(n) must equal LEN - headers, dlt_consume_msg's count must equal the distance; end to end the consumer's verdict offsets must equal an independent walk over the declared lengths.",
   note="Trusted: the header decoder / naive search (independent of writer and parser). The scheduler only decides which bytes follow a record in the buffer at call time - exactly what the repaired defect depended on. A consumer stalled on 'incomplete' is not judged (C04 speaks about successful parses).",
   technique="deterministic simulation: confined storage-fault injection + scripted delivery, alignment invariant after every parse against an independent length walk, seeded search, replay files"),
 "C05": dict(
   level="fault_enumeration", ref="4/C05",
   text="Crash-point enumeration: for every sampled well-formed record (real writer and foreign stub, up to 64 KiB, both storage modes) EVERY truncation offset 0..len-1 is judged for dlt_message (without and with a filter) and dlt_consume_msg: must be 'incomplete', hint None or 1..=missing. The same cuts are reached dynamically by delivering clean multi-record streams through a scripted source and asserting after every arrival, with 0, 1 or 5 idle polls (the parser called again although nothing arrived) after each; every fourth enumerated prefix is handed to the parser five times in a row. Exhaustive over cut positions per record; records are sampled.",
   note="Whether the complete record parses, and whether trailing bytes matter, is C01's statement and deliberately not judged. Well-formedness of the record is checked structurally (Cutter + header decoder) before judging.",
   technique="deterministic simulation: exhaustive enumeration of the instant the stream stops (every cut offset) + scripted incremental delivery, protocol invariant 'incomplete with safe hint'"),
 "C06": dict(
   level="exploration", ref="4/C06",
   text="Seeded search over storage-mode streams with pattern-free junk before / between / after records (biased to end in D, DL, DLT, to contain DLT\\0 and DDLT; lengths 0..64, around 16, 2^k-4..2^k+4 for k = 5..15, and holes around 64 KiB and 128 KiB) delivered under scripted fragmentation so that partial patterns sit at the end of the buffer at call time. forward_to_next_storage_header is compared with a naive first-match search (offset and remainder pointer) on every buffer the consumer holds; junk ++ m ++ s must parse like m ++ s without a filter, with the run's filter and with a filter that drops everything; every record wholly delivered must be recovered in order exactly once, and a second consumer with a filter must find every record at the same (offset, consumed) pair.",
   note="Runs whose record bodies contain the pattern by chance are discarded (counted), because the harness's resync policy, not the crate, would be judged. Expected items come from a second run of the real parser on the clean piece.",
   technique="deterministic simulation: junk-sector injection + scripted delivery to a resynchronising consumer, reference-model oracle (naive search), seeded search, replay files"),
 "C07": dict(
   level="exploration", ref="4/C07",
   text="Seeded search over (medium x read schedule x fault) for the real DltMessageReader: every read() result is a simulator decision (fragment size incl. boundary-hunting cuts, Interrupted bursts, one hard error, early EOF), media are written by the real writer and damaged by the fault catalogue, reader capacities are drawn per run so the BufReader refills inside records, and in 1 run of 12 message_max_len is drawn BELOW a length the stream declares (the Cutter then expects an error, never a panic). Checked against an independent Cutter plus slice parsing of each piece.",
   note="Trusted: the Cutter model (40 lines), ScriptedRead obeying the Read contract, std BufReader/read_exact. Expected value of each piece comes from the real dlt_message, so parser bugs are invisible here by construction. Nothing is required after a hard I/O error, a panic, LEN < 4 or a record larger than the configured message_max_len.",
   technique="deterministic simulation: scripted Read source (fragmentation, EINTR, EIO, EOF) + storage faults, reference-model oracle (Cutter), seeded search, minimised replay files"),
 "C08": dict(
   level="exploration", ref="4/C08",
   text="Seeded search over poll schedules for the real DltStreamReader on a hand-written executor: every poll_read result (Pending bursts with parked wakers, Ready(k), early EOF, rarely a hard error) and every executor choice (which woken task runs, when a parked waker fires, double wakes, spurious polls, 1..4 interleaved reader tasks) is a recorded decision. Oracle: the blocking reader on the same bytes (same capacities, incl. message_max_len below a declared length) with an always-ready source, messages and terminal outcome compared also at records with LEN < 4 or above the configured maximum; plus bounded progress (polls <= 2 * (Pending decisions + calls) + 16, no lost wake-up).",
   note="No cancellation (the API documents itself as not cancel safe) and no Interrupted (outside C08's quantifier). The reference is the real blocking reader, decided separately by C07.",
   technique="deterministic simulation: scripted AsyncRead + own executor (wake order, spurious polls) under a seeded scheduler, differential oracle against the blocking reader, bounded-liveness check, replay files"),
 "C10": dict(
   level="exploration", ref="4/C10",
   text="Seeded search over (well-formed stream x read schedule x merge history): collect_statistics runs through a fragmenting / interrupting / failing source with a recording collector (exactly one visit per record, headers equal to an independent header decoder) and with StatisticInfoCollector (equal to an independent tally as maps); streams have colliding ids, 4 % foreign-dialect records, and 1 in 200 is wide (700..1400 records over a 64-letter id alphabet); the stream is split at record boundaries into 1..8 parts (empty parts allowed), 0..2 identity values are added and everything is merged along a drawn history covering all orders and associations; result must equal the whole-stream statistics.",
   note="Streams are well-formed (C10's quantifier); after truncation / I/O error only the records wholly before the cut are judged. Vector order of the statistics is not part of the property.",
   technique="deterministic simulation: scripted Read source + seeded merge histories, reference-model oracle (header decoder + tally), replay files"),
 "C12": dict(
   level="fault_enumeration", ref="4/C12",
   text="Fault enumeration on content at rest: every truncation offset of the two shipped documents and of generated documents, plus seeded byte faults, structure-aware deletions, non-numeric and extreme numbers, rewired references (self references, cycles, wrong kind, duplicated ids), elements nested into each other, 64..200000-fold repeated start tags / CDATA / comment openers, UTF-16 re-encoding and file-level faults (missing / empty / directory / symlink loop / empty path list). Termination is decided in steps of the XML reader through the guarded hook (budget 2*bytes+64), so a hang there is a deterministic, replayable signal; a loop elsewhere is cut by a CPU-time budget (60 s of the loading thread's own CPU time; a load needs < 1 s) in a supervised child process, which also turns a stack overflow or a refused allocation into a located, minimised violation; no panic; answer is Some or None.",
   note="Read-level faults (EIO, short reads) cannot be injected: the API takes paths and read_pdu/read_frame are typed to BufReader<File>. Wall-clock time decides nothing (a 15-minute per-run limit exists only for a run blocked in the kernel). Exhaustive per document over cut positions; documents are sampled.",
   technique="deterministic simulation: torn-file enumeration (every byte) + stored-byte fault injection, step-clock hook for bounded liveness, replay files"),
 "C16": dict(
   level="exploration", ref="4/C16",
   text="Salvage pass over post-fault state: every message the streaming consumer recovers from faulted media and from the foreign-ECU dialect stub is re-serialised; when the result has the length its header declares it must parse back identically (floats by bits) with nothing left, serialise to the same bytes again, and the salvaged stream read back by a fresh consumer under a different delivery script must yield the same sequence.",
   note="Weakest fit of the nine (DESIGN.md 4/C16): the scheduler contributes only delivery; kept because the inputs (parser outputs outside the writer's own range) are exactly what fault injection on a stored stream produces. Decided for the crate as compiled with opt-level 2 (the harness profile): a change whose effect the optimiser removes (seeded/C16l, a float widened and narrowed again, which quiets a signalling NaN only in an unoptimised build) is not visible to it.",
   technique="deterministic simulation: storage-fault injection + dialect stub producer, recovery-idempotence oracle over salvaged streams, seeded search, replay files"),
}

def main():
    hooks_commits = ["28c1986"]
    m = {
      "version": 1,
      "setup_cmd": "./check.sh setup",
      "hooks": {
        "guard": "verif_hooks",
        "enable": "cargo feature `verif_hooks` of package dlt-core, switched on by the shadow manifest /verif/shadow/dlt-core/Cargo.toml ([lib] path=/repo/src/lib.rs) that /verif/sim depends on; /repo/Cargo.toml only declares the (empty) feature",
        "baseline_off_cmd": "cd /repo && cargo test --workspace --no-fail-fast --offline",
        "source_commits": hooks_commits,
        "add_only": True,
      },
      "engines": [{
        "name": "dltsim",
        "path": "sim",
        "serves_properties": sorted(CHECKS.keys()),
        "kind_free_text": "seeded deterministic simulation of byte sources, poll schedules, storage faults and merge histories around the real dlt-core readers and parsers; workload shaped by swarm configurations, sequence modes and a dictionary of the literals in the sources of the crate under test; reference-model oracles; delta-debugging minimiser; replay files (materialised cases, and seeded histories where the crate keeps state across calls); supervisor process with run journal and CPU-time watchdog for crashes and hangs that do not unwind",
      }],
      "checks": [],
      "not_applicable": [{"property_id": k, "reason": v} for k, v in sorted(NA.items())],
      "notes": "One technique family: deterministic simulation with fault injection. Exit codes of every command: 0 held, 1 VIOLATION line printed, 2 harness error. VERIF_SEED selects the batch (default fixed), VERIF_TIER overrides the tier argument. Sensitivity: 51 one-line mutants and 107 of 109 changes written by independent sub-agents (seeded/) are reported by the quick tier of the property they break (the other two are, on a literal reading of C08 / C06, no violations and are deliberately not reported); 63 property-preserving changes by sub-agents (benign/) leave every check of the property they were written against silent; of 490 (change, check) runs against them 3 raise an alarm correctly (under another property that the change does break) and 4 did so wrongly, which led to two repairs of the machinery (DESIGN.md section 13). See DESIGN.md.",
    }
    for pid, c in sorted(CHECKS.items()):
        m["checks"].append({
          "property_id": pid,
          "quick_cmd": f"./check.sh {pid} quick",
          "thorough_cmd": f"./check.sh {pid} thorough",
          "evidence_file": f"/verif/evidence/{pid}.json",
          "replay_cmd_template": "./check.sh replay {path}",
          "engine": "dltsim",
          "level_claimed": {"category": c["level"], "text": c["text"], "design_ref": "DESIGN.md section " + c["ref"]},
          "level_note": c["note"],
          "technique": c["technique"],
        })
    # properties planned but whose check is not registered yet
    claimed = set(CHECKS) | set(NA)
    for l in open("/verif/properties.jsonl"):
        pid = json.loads(l)["id"]
        if pid not in claimed:
            m["not_applicable"].append({"property_id": pid, "reason": "not claimed yet: the simulation check for this property (DESIGN.md section 4) is still under construction in this round"})
    m["not_applicable"].sort(key=lambda x: x["property_id"])
    json.dump(m, open("/verif/MANIFEST.json", "w"), indent=1)

main()
