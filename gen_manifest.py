#!/usr/bin/env python3
"""Writes MANIFEST.json from one table, so that the file stays valid and consistent."""
import json, subprocess

NA = {
 "C01": "pure function of an in-memory Message value (serialise, then parse): no byte source, schedule, crash point, fault or history in it; deciding it is property-based round-trip testing, not simulation (DESIGN.md section 5)",
 "C02": "conformance of a pure codec to an external byte layout; deciding it means writing a second codec and comparing over inputs (differential testing), nothing to schedule or fault",
 "C09": "the keep/drop decision is a pure predicate of (configuration, headers); its only stateful consequence (where the next record starts) is covered by C04.e",
 "C11": "the returned model is a pure function of the documents' contents; files are read whole and sequentially, nothing runs concurrently",
 "C13": "construct_arguments is a pure function of (types, bytes, byte order); only its never-panics clause is reached, under C03",
 "C14": "three finite domains to be enumerated completely (2^8, 2^8, 2^32): exhaustive enumeration, not seeded sampling of schedules or faults",
 "C15": "len() vs as_bytes().len() and Message::new consistency are pure functions of the value built",
 "C17": "pure integer arithmetic on one argument",
 "C18": "pure arithmetic on one argument",
 "C19": "pure function of (bytes, size)",
}

CHECKS = {
 "C07": dict(
   level="exploration", ref="4/C07",
   text="Seeded search over (medium x read schedule x fault) for the real DltMessageReader: every read() result is a simulator decision (fragment size, Interrupted bursts, one hard error, early EOF), media are written by the real writer and damaged by the fault catalogue, reader capacities are drawn per run so the BufReader refills inside records. Checked against an independent Cutter plus slice parsing of each piece. Sampling, not proof: a clean batch is evidence over the runs executed (counts in the evidence file).",
   note="Trusted: the Cutter model (40 lines), ScriptedRead obeying the Read contract, std BufReader/read_exact. Expected value of each piece comes from the real dlt_message, so parser bugs are invisible here by construction. Nothing is required after a hard I/O error, a panic or LEN < 4.",
   technique="deterministic simulation: scripted Read source (fragmentation, EINTR, EIO, EOF) + storage faults, reference-model oracle (Cutter), seeded search, minimised replay files"),
}

def main():
    hooks_commits = []
    m = {
      "version": 1,
      "setup_cmd": "./check.sh setup",
      "hooks": {
        "guard": "verif_hooks",
        "enable": "cargo feature `verif_hooks` of package dlt-core, switched on by the shadow manifest /verif/shadow/dlt-core/Cargo.toml ([lib] path=/repo/src/lib.rs) that /verif/sim depends on; /repo/Cargo.toml only declares the (empty) feature",
        "baseline_off_cmd": "cd /repo && cargo test --workspace --no-fail-fast --offline",
        "source_commits": hooks_commits,
        "add_only": True,
      },
      "engines": [{
        "name": "dltsim",
        "path": "sim",
        "serves_properties": sorted(CHECKS.keys()),
        "kind_free_text": "seeded deterministic simulation of byte sources, poll schedules, storage faults and merge histories around the real dlt-core readers and parsers; reference-model oracles; delta-debugging minimiser; replay files",
      }],
      "checks": [],
      "not_applicable": [{"property_id": k, "reason": v} for k, v in sorted(NA.items())],
      "notes": "One technique family: deterministic simulation with fault injection. Exit codes of every command: 0 held, 1 VIOLATION line printed, 2 harness error. VERIF_SEED selects the batch (default fixed), VERIF_TIER overrides the tier argument. See DESIGN.md.",
    }
    for pid, c in sorted(CHECKS.items()):
        m["checks"].append({
          "property_id": pid,
          "quick_cmd": f"./check.sh {pid} quick",
          "thorough_cmd": f"./check.sh {pid} thorough",
          "evidence_file": f"/verif/evidence/{pid}.json",
          "replay_cmd_template": "./check.sh replay {path}",
          "engine": "dltsim",
          "level_claimed": {"category": c["level"], "text": c["text"], "design_ref": "DESIGN.md section " + c["ref"]},
          "level_note": c["note"],
          "technique": c["technique"],
        })
    # properties planned but whose check is not registered yet
    claimed = set(CHECKS) | set(NA)
    for l in open("/verif/properties.jsonl"):
        pid = json.loads(l)["id"]
        if pid not in claimed:
            m["not_applicable"].append({"property_id": pid, "reason": "not claimed yet: the simulation check for this property (DESIGN.md section 4) is still under construction in this round"})
    m["not_applicable"].sort(key=lambda x: x["property_id"])
    json.dump(m, open("/verif/MANIFEST.json", "w"), indent=1)

main()
